//@unit c02_add props=C02,C04,C16 widths=u32
//@use prelude/head.rs
//@use prelude/vob.rs

// lrtable/src/lib/itemset.rs Itemset::add: the one function through which items and lookaheads get into an item set.
// Verified against the very contract that unit c02_itemset assumes of it (units/c02_add_contract.inc): a new item gets a
// copy of the context, an existing one is or-ed with it, and the result says whether anything changed.
pub type Key = (PIdx<$T>, SIdx<$T>);
pub type IS = Map<Key, Seq<bool>>;
pub open spec fn or_seq(a: Seq<bool>, b: Seq<bool>) -> Seq<bool> { Seq::new(a.len(), |i: int| a[i] || (0 <= i < b.len() && b[i])) }
#[verifier::external_body] pub struct ItemMap { _x: usize }      // HashMap<(PIdx, SIdx), Ctx>
impl ItemMap { pub uninterp spec fn m(&self) -> IS; }
impl Vob { #[verifier::external_body] pub fn clone(&self) -> (r: Vob) ensures r@ == self@ { unimplemented!() } }
// dialect rule 10: the hash map's entry API.  `map.entry(k)` is read as a look-up that says whether the key is there; the
// entry's methods then act on the map they came from (the rules below hand it to them): `e.get_mut()` is the value stored
// under the key, `e.insert(v)` stores v under it.
pub struct OccupiedEntry { pub k: Key }
pub struct VacantEntry { pub k: Key }
pub enum Entry { Occupied(OccupiedEntry), Vacant(VacantEntry) }
#[verifier::external_body] pub fn entry_of(m: &ItemMap, k: Key) -> (r: Entry)
    ensures r matches Entry::Occupied(e) ==> e.k == k && m.m().contains_key(k), r matches Entry::Vacant(e) ==> e.k == k && !m.m().contains_key(k)
{ unimplemented!() }
impl OccupiedEntry {
    // `e.get_mut().or(ctx)`: Vob::or on the stored value
    #[verifier::external_body] pub fn get_mut_or(&self, m: &mut ItemMap, ctx: &Vob) -> (changed: bool)
        requires old(m).m().contains_key(self.k), old(m).m()[self.k].len() == ctx@.len(), // OBLG: vob_or_same_length
        ensures final(m).m() == old(m).m().insert(self.k, or_seq(old(m).m()[self.k], ctx@)), changed == (final(m).m()[self.k] != old(m).m()[self.k])
    { unimplemented!() }
}
impl VacantEntry {
    #[verifier::external_body] pub fn insert(&self, m: &mut ItemMap, v: Vob)
        requires !old(m).m().contains_key(self.k),
        ensures final(m).m() == old(m).m().insert(self.k, v@)
    { unimplemented!() }
}
pub struct Itemset { pub items: ItemMap }
impl Itemset {
    pub fn add(&mut self, pidx: PIdx<$T>, dot: SIdx<$T>, ctx: &Vob) -> (r: bool)
//@use units/c02_add_contract.inc
    {
        //@probe
        //@body file=lrtable/src/lib/itemset.rs fn=add
        //@rule n=1 `let entry = self\.items\.entry\(\(pidx, dot\)\);` => `let entry = entry_of(&self.items, (pidx, dot));`
        //@rule n=1 `Entry::Occupied\(mut e\)` => `Entry::Occupied(e)`
        //@rule n=* `e\.get_mut\(\)\.or\(ctx\)` => `e.get_mut_or(&mut self.items, ctx)`
        //@rule n=* `e\.insert\(ctx\.clone\(\)\);` => `e.insert(&mut self.items, ctx.clone());`
        //@endbody
    }
}
//@use prelude/tail.rs
