//@unit c05_error props=C05,C04,C06 widths=u32
//@use prelude/head.rs
//@use prelude/lrpar.rs

// lrpar/src/lib/parser.rs, impl ParseError: what a user reads a reported error through.  The error is made by the
// driver (unit c04_lr: state and lexeme at which the parse stopped; units c05_* / c06_*: the repairs); here: the three
// look-ups hand out exactly those.
pub struct ParseError { pub stidx: StIdx<$T>, pub lexeme: LexemeT, pub repairs: Vec<Vec<ParseRepair>> }
impl ParseError {
    pub fn stidx(&self) -> (r: StIdx<$T>) ensures r == self.stidx, // OBL: C04.error.the_state_reported_is_the_one_recorded
    {
        //@probe
        //@body file=lrpar/src/lib/parser.rs fn=stidx
        //@endbody
    }
    pub fn lexeme(&self) -> (r: &LexemeT) ensures *r == self.lexeme, // OBL: C04.error.the_lexeme_reported_is_the_one_recorded
    {
        //@probe
        //@body file=lrpar/src/lib/parser.rs fn=lexeme
        //@endbody
    }
    pub fn repairs(&self) -> (r: &Vec<Vec<ParseRepair>>) ensures *r == self.repairs, // OBL: C05.error.the_repairs_reported_are_the_ones_recorded_in_rank_order
    {
        //@probe
        //@body file=lrpar/src/lib/parser.rs fn=repairs
        //@endbody
    }
}
//@use prelude/tail.rs
