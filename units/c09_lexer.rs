//@unit c09_lexer props=C09 widths=u32
//@use prelude/head.rs

// ---- stand-ins (assumed): the input text, the regex engine, lexemes and errors ----
#[verifier::external_body] pub struct Src { _x: usize }          // the &str being lexed
impl Src {
    pub uninterp spec fn slen(&self) -> nat;
    // a Rust str is at most isize::MAX bytes long
    #[verifier::external_body] pub fn len(&self) -> (r: usize) ensures r == self.slen(), r <= isize::MAX { unimplemented!() }
}
#[derive(Clone, Copy)] pub struct Span { pub st: usize, pub en: usize }
impl Span { pub fn new(start: usize, end: usize) -> (r: Span) requires start <= end ensures r.st == start, r.en == end { Span { st: start, en: end } } }
#[derive(Clone, Copy, PartialEq, Eq)] pub enum StartStateOperation { ReplaceStack, Push, Pop }
pub struct StartState { pub id: usize, pub exclusive: bool }
#[verifier::external_body] pub struct Str { _x: usize }
pub struct Match { pub en: usize }
impl Match { pub fn end(&self) -> (r: usize) ensures r == self.en { self.en } }
pub struct Rule { pub tok_id: Option<$T>, pub named: bool, pub states: Vec<usize>, pub target: Option<(usize, StartStateOperation)>, pub re_id: int }
// `r.re.find(&s[pos..])`: the rule's regex is anchored (\A), so a match starts at pos and its
// length is a function of (rule, text, pos); nothing else is assumed about the engine
pub uninterp spec fn mlen(r: &Rule, s: &Src, pos: int) -> Option<nat>;
impl Rule {
    #[verifier::external_body]
    pub fn re_find(&self, s: &Src, pos: usize) -> (m: Option<Match>)
        requires pos <= s.slen(), // OBLG: C09.slice_start_in_range
        ensures m is Some == mlen(self, s, pos as int) is Some,
            m matches Some(mm) ==> mm.en == mlen(self, s, pos as int).unwrap() && pos + mm.en <= s.slen(),
    { unimplemented!() }
    #[verifier::external_body]
    pub fn name(&self) -> (r: Option<Str>) ensures r is Some == self.named { unimplemented!() }
    pub fn start_states(&self) -> (r: &Vec<usize>) ensures r@ == self.states@ { &self.states }
    pub fn target_state(&self) -> (r: Option<(usize, StartStateOperation)>) ensures r == self.target { self.target }
}
// what ends up in the lexeme list: a lexeme (token id, start, length) or an error at a position
pub enum LexRes { Ok($T, usize, usize), Err(usize, usize) }
pub struct LRLexError { pub span: Span }
impl LRLexError {
    pub fn new(span: Span) -> (r: LRLexError) ensures r.span == span { LRLexError { span } }
    pub fn new_with_lexing_state(span: Span, _st: StartStateId) -> (r: LRLexError) ensures r.span == span { LRLexError { span } }
}
pub struct StartStateId { pub id: usize }
impl StartStateId { pub fn new(id: usize) -> (r: StartStateId) { StartStateId { id } } }
pub struct LexemeV { pub tok: $T, pub start: usize, pub len: usize }
pub struct Lexeme {}
impl Lexeme { pub fn new(tok_id: $T, start: usize, len: usize) -> (r: LexemeV) ensures r.tok == tok_id, r.start == start, r.len == len { LexemeV { tok: tok_id, start, len } } }
pub struct Lexer { pub lexemes: Vec<Result<LexemeV, LRLexError>> }
// dialect: `slice.contains(&x)`
pub fn slice_contains(v: &Vec<usize>, x: usize) -> (r: bool)
    ensures r == exists|i: int| 0 <= i < v@.len() && v@[i] == x
{
    let mut i = 0;
    while i < v.len()
        invariant i <= v@.len(), forall|j: int| 0 <= j < i ==> v@[j] != x,
        decreases v@.len() - i,
    { if v[i] == x { return true; } i += 1; }
    false
}

// ---------------- specification ----------------
// a rule is active in a start state: unqualified rules in inclusive states, else membership
pub open spec fn active(st: &StartState, states: Seq<usize>) -> bool {
    if states.len() == 0 { !st.exclusive } else { exists|i: int| 0 <= i < states.len() && states[i] == st.id }
}
// length of rule r's match at pos if it is active (0 = no usable match)
pub open spec fn cand(rules: Seq<Rule>, st: &StartState, s: &Src, pos: int, ridx: int) -> nat {
    if active(st, rules[ridx].states@) { match mlen(&rules[ridx], s, pos) { Some(n) => n, None => 0 } } else { 0 }
}
// `best`/`bidx` = the longest candidate among rules [0, n) and the earliest rule attaining it
pub open spec fn is_best(rules: Seq<Rule>, st: &StartState, s: &Src, pos: int, n: int, best: nat, bidx: int) -> bool {
    &&& forall|k: int| 0 <= k < n ==> #[trigger] cand(rules, st, s, pos, k) <= best
    &&& best > 0 ==> 0 <= bidx < n && cand(rules, st, s, pos, bidx) == best && forall|k: int| 0 <= k < bidx ==> #[trigger] cand(rules, st, s, pos, k) < best
}

pub struct LexerDef { pub rules: Vec<Rule>, pub start_states: Vec<StartState> }

// ---- the start-state stack: run-length encoded (count, state); the property speaks about the
// expanded stack of state ids ----
pub open spec fn rep(x: usize, n: nat) -> Seq<usize> { Seq::new(n, |i: int| x) }
pub open spec fn expand(st: Seq<(usize, &StartState)>) -> Seq<usize>
    decreases st.len()
{ if st.len() == 0 { Seq::empty() } else { expand(st.drop_last()) + rep(st.last().1.id, st.last().0 as nat) } }
pub open spec fn stack_ok(st: Seq<(usize, &StartState)>, bound: int) -> bool {
    st.len() >= 1 && forall|k: int| 0 <= k < st.len() ==> 1 <= (#[trigger] st[k]).0 <= bound
}
pub proof fn lemma_expand_push(st: Seq<(usize, &StartState)>, s: &StartState)
    ensures expand(st.push((1usize, s))) =~= expand(st).push(s.id)
{
    assert(st.push((1usize, s)).drop_last() =~= st);
    assert(rep(s.id, 1) =~= seq![s.id]);
}
pub proof fn lemma_expand_inc(st: Seq<(usize, &StartState)>, c: usize)
    requires st.len() > 0, c == st.last().0 + 1
    ensures expand(st.update(st.len() - 1, (c, st.last().1))) =~= expand(st).push(st.last().1.id)
{
    let st2 = st.update(st.len() - 1, (c, st.last().1));
    assert(st2.drop_last() =~= st.drop_last());
    assert(rep(st.last().1.id, c as nat) =~= rep(st.last().1.id, st.last().0 as nat).push(st.last().1.id));
}
pub proof fn lemma_expand_dec(st: Seq<(usize, &StartState)>, c: usize)
    requires st.len() > 0, st.last().0 >= 1, c == st.last().0 - 1
    ensures st.last().0 > 1 ==> expand(st.update(st.len() - 1, (c, st.last().1))) =~= expand(st).drop_last(),
        st.last().0 == 1 ==> expand(st.drop_last()) =~= expand(st).drop_last(),
        expand(st).len() >= st.last().0,
{
    let st2 = st.update(st.len() - 1, (c, st.last().1));
    assert(st2.drop_last() =~= st.drop_last());
    assert(rep(st.last().1.id, c as nat) =~= rep(st.last().1.id, st.last().0 as nat).drop_last());
    if st.last().0 == 1 { assert(rep(st.last().1.id, 1) =~= seq![st.last().1.id]); }
}
pub proof fn lemma_expand_one(s: &StartState)
    ensures expand(seq![(1usize, s)]) =~= seq![s.id]
{
    reveal_with_fuel(expand, 2);
    let st = seq![(1usize, s)];
    assert(st.drop_last() =~= Seq::<(usize, &StartState)>::empty());
    assert(rep(s.id, 1) =~= seq![s.id]);
}
pub proof fn lemma_expand_nonempty(st: Seq<(usize, &StartState)>)
    requires st.len() > 0, forall|k: int| 0 <= k < st.len() ==> (#[trigger] st[k]).0 >= 1
    ensures expand(st).len() >= st.len()
    decreases st.len()
{
    if st.len() > 1 { lemma_expand_nonempty(st.drop_last()); }
}
// what the property prescribes for one operation on the expanded stack
pub open spec fn stack_after(before: Seq<usize>, op: StartStateOperation, target: usize, initial: usize) -> Seq<usize> {
    match op {
        StartStateOperation::ReplaceStack => seq![target],
        StartStateOperation::Push => before.push(target),
        StartStateOperation::Pop => if before.len() > 1 { before.drop_last() } else { seq![initial] },
    }
}

// the lexeme list as the property sees it
pub open spec fn view_one(x: Result<LexemeV, LRLexError>) -> LexRes { match x { Ok(l) => LexRes::Ok(l.tok, l.start, l.len), Err(e) => LexRes::Err(e.span.st, e.span.en) } }
// Every entry but possibly the last is a lexeme; lexemes are non-empty, in order, inside
// [0, upto) without overlap; an error (only ever last) sits at a position >= everything before
pub open spec fn tiled(v: Seq<Result<LexemeV, LRLexError>>, upto: int) -> bool {
    &&& forall|k: int| 0 <= k < v.len() - 1 ==> #[trigger] v[k] is Ok
    &&& forall|k: int| 0 <= k < v.len() && #[trigger] v[k] is Ok ==> v[k]->Ok_0.len > 0 && v[k]->Ok_0.start + v[k]->Ok_0.len <= upto
    &&& forall|k: int, m: int| 0 <= k < m < v.len() && #[trigger] v[k] is Ok && #[trigger] v[m] is Ok ==> v[k]->Ok_0.start + v[k]->Ok_0.len <= v[m]->Ok_0.start
}

impl LexerDef {
    fn state_matches(state: &StartState, rule_states: &Vec<usize>) -> (r: bool)
        ensures r == active(state, rule_states@), // OBL: C09.rule_active_iff_unqualified_in_inclusive_state_or_listed
    {
        //@probe
        //@body file=lrlex/src/lib/lexer.rs fn=state_matches
        //@rule n=1 `rule_states\.is_empty\(\)` => `rule_states.len() == 0`
        //@rule n=1 `rule_states\.contains\(&state\.id\)` => `slice_contains(rule_states, state.id)`
        //@endbody
    }
    #[verifier::external_body]
    fn get_start_state_by_id(&self, id: usize) -> (r: Option<&StartState>) ensures r matches Some(st) ==> st.id == id { unimplemented!() }
    fn get_rule(&self, idx: usize) -> (r: Option<&Rule>) ensures idx < self.rules@.len() ==> r == Some(&self.rules@[idx as int]), idx >= self.rules@.len() ==> r is None
    { if idx < self.rules.len() { Some(&self.rules[idx]) } else { None } }

    pub fn lexer(&self, s: &Src) -> (r: Lexer)
        ensures
            tiled(r.lexemes@, s.slen() as int), // OBL: C09.lexemes_in_order_without_overlap_error_only_last
    {
        //@probe
        //@body file=lrlex/src/lib/lexer.rs fn=lexer
        //@rule n=* `LRNonStreamingLexer::new\(\s*s,\s*lexemes,\s*NewlineCache::from_str\(s\)\.unwrap\(\),?\s*\)` => `Lexer { lexemes }`
        //@rule n=1 `let mut lexemes = vec!\[\];` => `let mut lexemes: Vec<Result<LexemeV, LRLexError>> = Vec::new();`
        //@rule n=1 `^(\s*)while i < s\.len\(\) \{$` =>>
        let ghost mut stopped = false;
        let slen_ = s.len();
        while i < s.len()
            invariant_except_break
                !stopped,
                forall|k: int| 0 <= k < lexemes@.len() ==> #[trigger] lexemes@[k] is Ok, // OBL: C09.no_error_before_the_lexer_stops
                tiled(lexemes@, i as int), // OBL: C09.lexemes_tile_the_consumed_prefix
            invariant
                i <= s.slen(), s.slen() <= isize::MAX,
                stack_ok(state_stack@, i + 1), // OBL: C09.start_state_stack_never_empty_counts_positive
            ensures tiled(lexemes@, s.slen() as int),
            decreases s.slen() - i, // OBL: C09.lexer_always_advances
        {
            //@probe
        //@end
        //@rule n=1 `^(\s*)for \(ridx, r\) in self\.iter_rules\(\)\.enumerate\(\) \{$` =>>
            let mut ridx_next_: usize = 0;
            while ridx_next_ < self.rules.len()
                invariant
                    ridx_next_ <= self.rules@.len(), old_i == i, i < s.slen(), s.slen() <= isize::MAX, stack_ok(state_stack@, i + 1),
                    is_best(self.rules@, current_state, s, old_i as int, ridx_next_ as int, longest as nat, longest_ridx as int), // OBL: C09.longest_match_earliest_rule_among_active_rules
                    old_i + longest <= s.slen(),
                decreases self.rules@.len() - ridx_next_,
            {
                //@probe
                // dialect rule 5: for (ridx, r) in self.iter_rules().enumerate() (the body uses `continue`)
                let ridx = ridx_next_;
                ridx_next_ = ridx_next_ + 1;
                let r = &self.rules[ridx];
        //@end
        //@rule n=1 `r\.re\.find\(&s\[old_i\.\.\]\)` => `r.re_find(s, old_i)`
        //@rule n=1 `if !Self::state_matches\(current_state, r\.start_states\(\)\) \{` => `if !LexerDef::state_matches(current_state, r.start_states()) {`
        // dialect rule 9 (builtin lastmut): `let head = V.last_mut()` + `&mut` tuple bindings under match
        // guards become the index of the last element + indexed reads / Vec::set writes
        //@builtin lastmut
        //@rule n=1 `let head = if state_stack\.len\(\) > 0 \{ Some\(state_stack\.len\(\) - 1\) \} else \{ None \};` =>>
                    let ghost st_before = state_stack@;
                    proof { lemma_expand_nonempty(st_before); }
                    let head = if state_stack.len() > 0 { Some(state_stack.len() - 1) } else { None };
        //@end
        //@rule n=* `state_stack\.set\(hi_, \(c_ \+ 1, s_\)\); \}` => `state_stack.set(hi_, (c_ + 1, s_)); proof { lemma_expand_inc(st_before, (c_ + 1) as usize); } }`
        //@rule n=* `state_stack\.set\(hi_, \(c_ - 1, s_\)\); \}` => `state_stack.set(hi_, (c_ - 1, s_)); proof { lemma_expand_dec(st_before, (c_ - 1) as usize); } }`
        //@rule n=* `_ => state_stack\.push\(\(1, state\)\),` => `_ => { state_stack.push((1, state)); proof { lemma_expand_push(st_before, state); } }`
        //@rule n=1 `state_stack\.is_empty\(\)` => `state_stack.len() == 0`
        //@rule n=1 `^(\s*)state_stack\.pop\(\);$` => `\1proof { lemma_expand_dec(st_before, (st_before.last().0 - 1) as usize); }\n\1state_stack.pop();`
        //@rule n=1 `if state_stack\.len\(\) == 0 \{\n(\s*)state_stack\.push\(\(1, initial_state\)\);` => `if state_stack.len() == 0 {\n\1state_stack.push((1, initial_state)); proof { lemma_expand_one(initial_state); assert(state_stack@ =~= seq![(1usize, initial_state)]); }`
        //@rule n=1 `^(\s*)state_stack\.clear\(\);\n(\s*)state_stack\.push\(\(1, state\)\);` => `\1state_stack.clear();\n\2state_stack.push((1, state)); proof { lemma_expand_one(state); assert(state_stack@ =~= seq![(1usize, state)]); }`
        //@after n=1 `match op \{` =>>
                    assert(expand(state_stack@) =~= stack_after(expand(st_before), *op, state.id, initial_state.id)); // OBL: C09.start_state_stack_push_pop_replace
        //@end
        //@rule n=* `^(\s*)break;$` => `\1proof { stopped = true; }\n\1break;`
        //@endbody
    }
}
//@use prelude/tail.rs
