//@unit c12_lex props=C12 widths=u32
//@use prelude/head.rs
//@use prelude/cursor.rs

// ---- the character classes of lrlex/src/lib/parser.rs and its regexes (trusted; tied to the source text) ----
pub open spec fn CLS_WS() -> int { 1 }      // \p{Pattern_White_Space}
pub open spec fn CLS_LINE() -> int { 2 }    // [\p{Pattern_White_Space}&&[\p{Zl}\p{Zp}\n\r\v]]
pub open spec fn CLS_SPACE() -> int { 3 }   // [\p{Pattern_White_Space}&&[\p{Zs}\t]]
//@expect file=lrlex/src/lib/parser.rs re=`static RE_LINE_SEP: LazyLock<Regex> =\s*LazyLock::new\(\|\| Regex::new\(r"\[\\p\{Pattern_White_Space\}&&\[\\p\{Zl\}\\p\{Zp\}\\n\\r\\v\]\]"\)\.unwrap\(\)\);`
#[verifier::external_body]
pub fn RE_LINE_SEP() -> (r: Re) ensures r.one_of_cls(), r.cls() == CLS_LINE() { unimplemented!() }
//@expect file=lrlex/src/lib/parser.rs re=`static RE_LEADING_LINE_SEPS: LazyLock<Regex> =\s*LazyLock::new\(\|\| Regex::new\(r"\^\[\\p\{Pattern_White_Space\}&&\[\\p\{Zl\}\\p\{Zp\}\\n\\r\\v\]\]\*"\)\.unwrap\(\)\);`
#[verifier::external_body]
pub fn RE_LEADING_LINE_SEPS() -> (r: Re) ensures r.anchored(), r.always(), r.run_of_cls(), r.cls() == CLS_LINE() { unimplemented!() }
//@expect file=lrlex/src/lib/parser.rs re=`static RE_LEADING_SPACE_SEPS: LazyLock<Regex> =\s*LazyLock::new\(\|\| Regex::new\(r"\^\[\\p\{Pattern_White_Space\}&&\[\\p\{Zs\}\\t\]\]\*"\)\.unwrap\(\)\);`
#[verifier::external_body]
pub fn RE_LEADING_SPACE_SEPS() -> (r: Re) ensures r.anchored(), r.always(), r.run_of_cls(), r.cls() == CLS_SPACE() { unimplemented!() }
//@expect file=lrlex/src/lib/parser.rs re=`static RE_LEADING_WS: LazyLock<Regex> =\s*LazyLock::new\(\|\| Regex::new\(r"\^\[\\p\{Pattern_White_Space\}\]\*"\)\.unwrap\(\)\);`
#[verifier::external_body]
pub fn RE_LEADING_WS() -> (r: Re) ensures r.anchored(), r.always(), r.run_of_cls(), r.cls() == CLS_WS() { unimplemented!() }
// '/' and '%' are not white space: text that starts with "//" or "%%" does not start with a separator
#[verifier::external_body]
pub proof fn axiom_marker_not_ws(src: &Src, i: int, s: Lit)
    requires src.spec_starts_with(i, s), s == spec_lit("//"@, 2) || s == spec_lit("%%"@, 2)
    ensures !src.in_cls(CLS_WS(), i), !src.in_cls(CLS_LINE(), i), !src.in_cls(CLS_SPACE(), i)
{ }

#[derive(Clone, Copy)]
pub enum LexErrorKind { PrematureEnd, RoutinesNotSupported, UnknownDeclaration, MissingSpace, VerbatimNotSupported, Other }
pub struct LexBuildError { pub kind: LexErrorKind, pub spans: Vec<Span> }
pub open spec fn err_ok(src: &Src, e: LexBuildError) -> bool { e.spans@.len() > 0 && spans_ok(src, e.spans@) }
pub open spec fn errs_ok(src: &Src, v: Seq<LexBuildError>) -> bool { forall|k: int| 0 <= k < v.len() ==> err_ok(src, #[trigger] v[k]) }
pub struct LexFlagsD { pub allow_wholeline_comments: Option<bool> }
pub struct LexParser { pub src: Src, pub lex_flags: LexFlagsD }

impl LexParser {
    fn mk_error(&self, kind: LexErrorKind, off: usize) -> (r: LexBuildError)
        requires self.src.ok(off as int), // OBLG: C12.lex.error_offset_in_range_on_boundary
        ensures err_ok(&self.src, r), // OBL: C12.lex.mk_error.span_renderable
    {
        //@probe
        //@body file=lrlex/src/lib/parser.rs fn=mk_error
        //@endbody
    }

    // (the four cursor helpers take `&mut self` in /repo without mutating anything; they are checked as `&self`)
    fn parse_ws(&self, i: usize) -> (r: Result<usize, LexBuildError>)
        requires self.src.ok(i as int),
        ensures r matches Ok(j) && i <= j && self.src.ok(j as int), // OBL: C12.lex.parse_ws.cursor_monotone_in_range_on_boundary
                r matches Ok(j) && (j < self.src.slen() ==> !self.src.in_cls(CLS_WS(), j as int)) && (j > i ==> self.src.in_cls(CLS_WS(), i as int)),
    {
        //@probe
        //@body file=lrlex/src/lib/parser.rs fn=parse_ws
        //@use prelude/cursor_rules.rs
        //@rule n=1 `self\.src\.re_find\(RE_LEADING_WS\(\), i\)\s*\.map\(\|m\| m\.end\(\) \+ i\)\s*\.unwrap_or\(i\)` => `match self.src.re_find(RE_LEADING_WS(), i) { Some(m) => m.end() + i, None => i }`
        //@endbody
    }
    fn parse_nl(&self, i: usize) -> (r: Result<usize, LexBuildError>)
        requires self.src.ok(i as int),
        ensures r matches Ok(j) && i <= j && self.src.ok(j as int), // OBL: C12.lex.parse_nl.cursor_monotone_in_range_on_boundary
                r matches Ok(j) && (j < self.src.slen() ==> !self.src.in_cls(CLS_LINE(), j as int)),
    {
        //@probe
        //@body file=lrlex/src/lib/parser.rs fn=parse_nl
        //@use prelude/cursor_rules.rs
        //@rule n=1 `self\.src\.re_find\(RE_LEADING_LINE_SEPS\(\), i\)\s*\.map\(\|m\| m\.end\(\) \+ i\)\s*\.unwrap_or\(i\)` => `match self.src.re_find(RE_LEADING_LINE_SEPS(), i) { Some(m) => m.end() + i, None => i }`
        //@endbody
    }
    fn parse_spaces(&self, i: usize) -> (r: Result<usize, LexBuildError>)
        requires self.src.ok(i as int),
        ensures r matches Ok(j) && i <= j && self.src.ok(j as int), // OBL: C12.lex.parse_spaces.cursor_monotone_in_range_on_boundary
    {
        //@probe
        //@body file=lrlex/src/lib/parser.rs fn=parse_spaces
        //@use prelude/cursor_rules.rs
        //@rule n=1 `self\.src\.re_find\(RE_LEADING_SPACE_SEPS\(\), i\)\s*\.map\(\|m\| m\.end\(\) \+ i\)\s*\.unwrap_or\(i\)` => `match self.src.re_find(RE_LEADING_SPACE_SEPS(), i) { Some(m) => m.end() + i, None => i }`
        //@endbody
    }
    fn lookahead_is(&self, s: Lit, i: usize) -> (r: Option<usize>)
        requires self.src.ok(i as int),
        ensures r matches Some(j) ==> j == i + s.slen() && self.src.ok(j as int), // OBL: C12.lex.lookahead_is.cursor_in_range_on_boundary
                (r is Some) == self.src.spec_starts_with(i as int, s), // OBL: C12.lex.lookahead_is.some_iff_text_starts_with_literal
    {
        //@probe
        //@body file=lrlex/src/lib/parser.rs fn=lookahead_is
        //@use prelude/cursor_rules.rs
        //@endbody
    }

    // ---- callees whose bodies are outside this unit ----
    // parse_declaration: progress (Ok(k) ==> k > i) is proved in unit c11_decl; the rest is assumed
    #[verifier::external_body]
    fn parse_declaration(&mut self, i: usize, errs: &mut Vec<LexBuildError>) -> (r: Result<usize, LexBuildError>)
        requires old(self).src.ok(i as int), i < old(self).src.slen(), errs_ok(&old(self).src, old(errs)@),
        ensures final(self).src == old(self).src, final(self).lex_flags == old(self).lex_flags, errs_ok(&old(self).src, final(errs)@),
            final(errs)@.len() >= old(errs)@.len(),
            r matches Ok(k) ==> i < k && old(self).src.ok(k as int),
            r matches Err(e) ==> err_ok(&old(self).src, e),
    { unimplemented!() }
    // parse_rule: the cursor part (Ok(k) ==> k = i + line_len > i on a boundary) is proved below (parse_rule_cursor); the rest is assumed
    #[verifier::external_body]
    fn parse_rule(&mut self, i: usize, errs: &mut Vec<LexBuildError>) -> (r: Result<usize, LexBuildError>)
        requires old(self).src.ok(i as int), i < old(self).src.slen(), !old(self).src.in_cls(CLS_LINE(), i as int), errs_ok(&old(self).src, old(errs)@),
        ensures final(self).src == old(self).src, final(self).lex_flags == old(self).lex_flags, errs_ok(&old(self).src, final(errs)@),
            final(errs)@.len() >= old(errs)@.len(),
            r matches Ok(k) ==> i < k && old(self).src.ok(k as int),
            r matches Err(e) ==> err_ok(&old(self).src, e),
    { unimplemented!() }

    //@ctx parse_rule_cursor: the first statement of parse_rule (line_len) and its final value Ok(i + line_len); nothing in between assigns i or line_len (both are immutable bindings)
    fn parse_rule_cursor(&self, i: usize) -> (r: Result<usize, LexBuildError>)
        requires self.src.ok(i as int), i < self.src.slen(), !self.src.in_cls(CLS_LINE(), i as int),
        ensures r matches Ok(k) && i < k && self.src.ok(k as int), // OBL: C12.lex.parse_rule.ok_advances_on_boundary
    {
        //@probe
        //@body file=lrlex/src/lib/parser.rs fn=parse_rule block=`^\s*let line_len = RE_LINE_SEP$` endx=`^\s*let line = `
        //@use prelude/cursor_rules.rs
        //@rule n=1 `self\.src\.re_find\(RE_LINE_SEP\(\), i\)\s*\.map\(\|m\| m\.start\(\)\)\s*\.unwrap_or\(self\.src\.len\(\) - i\)` => `match self.src.re_find(RE_LINE_SEP(), i) { Some(m) => m.start(), None => self.src.len() - i }`
        //@endbody
        //@body file=lrlex/src/lib/parser.rs fn=parse_rule block=`^\s*Ok\(i \+ line_len\)$` through=`^\s*Ok\(i \+ line_len\)$`
        //@endbody
    }

    fn parse_declarations(&mut self, i0: usize, errs: &mut Vec<LexBuildError>) -> (r: Result<usize, LexBuildError>)
        requires old(self).src.ok(i0 as int), errs_ok(&old(self).src, old(errs)@),
        ensures final(self).src == old(self).src, final(self).lex_flags == old(self).lex_flags, errs_ok(&old(self).src, final(errs)@), final(errs)@.len() >= old(errs)@.len(),
            r matches Ok(k) ==> old(self).src.ok(k as int), // OBL: C12.lex.parse_declarations.ok_cursor_in_range_on_boundary
            r matches Err(e) ==> err_ok(&old(self).src, e), // OBL: C12.lex.parse_declarations.error_spans_renderable
    {
        //@probe
        let mut i = i0;
        //@body file=lrlex/src/lib/parser.rs fn=parse_declarations
        //@use prelude/cursor_rules.rs
        //@rule n=1 `self\.src\.re_find\(RE_LINE_SEP\(\), i\)\s*\.map\(\|m\| m\.start\(\) \+ i\)\s*\.unwrap_or\(self\.src\.len\(\)\)` => `match self.src.re_find(RE_LINE_SEP(), i) { Some(m) => m.start() + i, None => self.src.len() }`
        // dialect: the loop is the function's tail expression: `break V;` ↦ `return V;`
        //@rule n=* `\bbreak (Err|Ok)\(` => `return \1(`
        //@rule n=1 `^(\s*)loop \{$` =>>
        loop
            invariant self.src == old(self).src, self.lex_flags == old(self).lex_flags, self.src.ok(i as int), errs_ok(&self.src, errs@), errs@.len() >= old(errs)@.len(),
            decreases self.src.slen() - i, // OBL: C12.lex.parse_declarations.loop_terminates
        {
            //@probe
        //@end
        //@rule n=1 `(&& self\.lookahead_is\(lit\("//", 2\), i\)\.is_some\(\)\s*\{)` => `\1 proof { axiom_marker_not_ws(&self.src, i as int, spec_lit("//"@, 2)); }`
        //@endbody
    }

    fn parse_rules(&mut self, i0: usize, errs: &mut Vec<LexBuildError>) -> (r: Result<usize, LexBuildError>)
        requires old(self).src.ok(i0 as int), errs_ok(&old(self).src, old(errs)@),
        ensures final(self).src == old(self).src, final(self).lex_flags == old(self).lex_flags, errs_ok(&old(self).src, final(errs)@), final(errs)@.len() >= old(errs)@.len(),
            r matches Ok(k) ==> old(self).src.ok(k as int) && (k == old(self).src.slen() || old(self).src.spec_starts_with(k as int, spec_lit("%%"@, 2))), // OBL: C12.lex.parse_rules.stops_at_end_or_section_marker
            r matches Err(e) ==> err_ok(&old(self).src, e), // OBL: C12.lex.parse_rules.error_spans_renderable
    {
        //@probe
        let mut i = i0;
        //@body file=lrlex/src/lib/parser.rs fn=parse_rules
        //@use prelude/cursor_rules.rs
        //@rule n=1 `self\.src\.re_find\(RE_LINE_SEP\(\), i\)\s*\.map\(\|m\| m\.start\(\)\)\s*\.unwrap_or\(self\.src\.len\(\) - i\)` => `match self.src.re_find(RE_LINE_SEP(), i) { Some(m) => m.start(), None => self.src.len() - i }`
        //@rule n=1 `^(\s*)loop \{$` =>>
        loop
            invariant_except_break self.src == old(self).src, self.lex_flags == old(self).lex_flags, self.src.ok(i as int), errs_ok(&self.src, errs@), errs@.len() >= old(errs)@.len(),
            ensures self.src == old(self).src, self.lex_flags == old(self).lex_flags, self.src.ok(i as int), errs_ok(&self.src, errs@), errs@.len() >= old(errs)@.len(),
                i == self.src.slen() || self.src.spec_starts_with(i as int, spec_lit("%%"@, 2)),
            decreases self.src.slen() - i, // OBL: C12.lex.parse_rules.loop_terminates
        {
            //@probe
        //@end
        //@rule n=1 `(&& self\.lookahead_is\(lit\("//", 2\), i\)\.is_some\(\)\s*\{)` => `\1 proof { axiom_marker_not_ws(&self.src, i as int, spec_lit("//"@, 2)); }`
        //@endbody
    }

    fn parse(&mut self, start: usize) -> (r: Result<usize, Vec<LexBuildError>>)
        requires old(self).src.ok(start as int),
        ensures
            r matches Ok(j) ==> old(self).src.ok(j as int), // OBL: C12.lex.parse.ok_cursor_in_range_on_boundary
            r matches Err(errs) ==> errs@.len() > 0, // OBL: C12.lex.parse.err_list_non_empty
            r matches Err(errs) ==> errs_ok(&old(self).src, errs@), // OBL: C12.lex.parse.error_spans_renderable
    {
        //@probe
        //@body file=lrlex/src/lib/parser.rs fn=parse
        //@use prelude/cursor_rules.rs
        //@rule n=1 `let mut errs = Vec::new\(\);` => `let mut errs: Vec<LexBuildError> = Vec::new();`
        //@endbody
    }
}

// ---- trim_end_unescaped: slices of a &str by prefix length ----
pub struct Prefix { pub n: usize }      // `&s[..n]`
impl Prefix { pub fn len(&self) -> (r: usize) ensures r == self.n { self.n }
    // trimmed.chars().rev().take_while(|&c| c == '\\').count()
    #[verifier::external_body] pub fn count_trailing_backslashes(&self) -> (r: usize) ensures r <= self.n { unimplemented!() } }
impl Src {
    // s.trim_end_matches(matches_whitespace): the prefix left after removing the trailing run of white space
    #[verifier::external_body] pub fn trim_end_ws(&self) -> (r: Prefix)
        ensures r.n <= self.slen(), self.is_boundary(r.n as int), r.n < self.slen() ==> self.in_cls(CLS_WS(), r.n as int)
    { unimplemented!() }
    // s[a..].chars().next()  (None when a is the end of the text)
    #[verifier::external_body] pub fn first_char_len_from(&self, a: usize) -> (r: Option<usize>)
        requires a <= self.slen(), // OBLG: C12.slice_start_in_range
                 self.is_boundary(a as int), // OBLG: C12.slice_start_on_char_boundary
        ensures (r is None) == (a == self.slen()), r matches Some(l) ==> 1 <= l && a + l <= self.slen() && self.is_boundary(a + l)
    { unimplemented!() }
    // &s[..b]
    pub fn prefix(&self, b: usize) -> (r: Prefix)
        requires b <= self.slen(), // OBLG: C12.slice_end_in_range
                 self.is_boundary(b as int), // OBLG: C12.slice_end_on_char_boundary
        ensures r.n == b
    { Prefix { n: b } }
    pub fn whole(&self) -> (r: Prefix) ensures r.n == self.slen() { Prefix { n: self.len() } }
}
fn trim_end_unescaped(s: &Src) -> (r: Prefix)
    requires s.slen() <= isize::MAX,
    ensures r.n <= s.slen() && s.is_boundary(r.n as int), // OBL: C12.lex.trim_end_unescaped.result_is_a_prefix_on_a_boundary
{
    //@probe
    proof { s.axiom_ends(); }
    //@body file=lrlex/src/lib/parser.rs fn=trim_end_unescaped
    //@rule n=1 `s\.trim_end_matches\(matches_whitespace\)` => `s.trim_end_ws()`
    //@rule n=1 `^(\s*)return s;$` => `\1return s.whole();`
    //@rule n=1 `trimmed\.chars\(\)\.rev\(\)\.take_while\(\|&c\| c == '\\\\'\)\.count\(\)` => `trimmed.count_trailing_backslashes()`
    //@rule n=1 `s\[trimmed\.len\(\)\.\.\]\.chars\(\)\.next\(\)\.unwrap\(\)\.len_utf8\(\)` => `s.first_char_len_from(trimmed.len()).unwrap()`
    //@rule n=1 `&s\[\.\.(.*)\]$` => `s.prefix(\1)`
    //@endbody
}
//@undecided parse_rule / parse_declaration bodies beyond their cursor (the regex compilation in Rule::new, parse_start_states / unescape) are not in this unit
//@use prelude/tail.rs
