//@unit c17_firsts props=C17 widths=u32
//@use prelude/head.rs
//@use prelude/grammar.rs
//@use prelude/vob.rs

pub struct YaccFirsts { pub firsts: Vec<Vob>, pub epsilons: Vob }

// ---------------- specification: FIRST / epsilon as the least closed family ----------------
pub type FS = Seq<Seq<bool>>;
pub open spec fn shape(g: &YaccGrammar, F: FS, E: Seq<bool>) -> bool {
    F.len() == g.nrules() && E.len() == g.nrules() && forall|r: int| 0 <= r < g.nrules() ==> (#[trigger] F[r]).len() == g.ntok()
}
// symbol i of production p is a rule that derives the empty string
pub open spec fn nullable_sym(g: &YaccGrammar, E: Seq<bool>, p: int, j: int) -> bool {
    g.prods()[p][j] is Rule && E[g.prods()[p][j]->Rule_0.0 as int]
}
// the first i symbols of production p are all rules that derive the empty string
pub open spec fn nullable_prefix(g: &YaccGrammar, E: Seq<bool>, p: int, i: int) -> bool {
    forall|j: int| 0 <= j < i ==> #[trigger] nullable_sym(g, E, p, j)
}
pub open spec fn rule_of_(g: &YaccGrammar, p: int) -> int { g.rule_of()[p].0 as int }
// token t begins what symbol i of production p (a rule) derives, according to F
pub open spec fn sym_first(g: &YaccGrammar, F: FS, p: int, i: int, t: int) -> bool {
    g.prods()[p][i] is Rule && F[g.prods()[p][i]->Rule_0.0 as int][t]
}
pub open spec fn sym_is_token(g: &YaccGrammar, p: int, i: int) -> bool { g.prods()[p][i] is Token }
// the textbook rules, for one production
pub open spec fn local_closed(g: &YaccGrammar, F: FS, E: Seq<bool>, p: int) -> bool {
    // a token after a nullable prefix begins what the production's rule derives
    &&& forall|i: int| 0 <= i < g.prods()[p].len() && nullable_prefix(g, E, p, i) && #[trigger] sym_is_token(g, p, i) ==>
            F[rule_of_(g, p)][g.prods()[p][i]->Token_0.0 as int]
    // so does everything that begins a rule after a nullable prefix
    &&& forall|i: int, t: int| 0 <= i < g.prods()[p].len() && 0 <= t < g.ntok() && nullable_prefix(g, E, p, i) && #[trigger] sym_first(g, F, p, i, t) ==>
            F[rule_of_(g, p)][t]
    // a production of nullable rules only (in particular the empty one) makes its rule nullable
    &&& nullable_prefix(g, E, p, g.prods()[p].len() as int) ==> E[rule_of_(g, p)]
}
pub open spec fn first_closed(g: &YaccGrammar, F: FS, E: Seq<bool>) -> bool {
    shape(g, F, E) && forall|p: int| 0 <= p < g.nprods() ==> #[trigger] local_closed(g, F, E, p)
}
pub open spec fn below(g: &YaccGrammar, F: FS, E: Seq<bool>, F2: FS, E2: Seq<bool>) -> bool {
    &&& forall|r: int, t: int| 0 <= r < g.nrules() && 0 <= t < g.ntok() && #[trigger] F[r][t] ==> F2[r][t]
    &&& forall|r: int| 0 <= r < g.nrules() && #[trigger] E[r] ==> E2[r]
}
// "exactly": closed (nothing missing) and contained in every closed family (nothing extra)
pub open spec fn first_least(g: &YaccGrammar, F: FS, E: Seq<bool>) -> bool {
    forall|F2: FS, E2: Seq<bool>| #[trigger] first_closed(g, F2, E2) ==> below(g, F, E, F2, E2)
}

//@use prelude/bits.rs
impl YaccFirsts {
    pub open spec fn F(&self) -> FS { vv(self.firsts@) }
    pub open spec fn E(&self) -> Seq<bool> { self.epsilons@ }
    pub open spec fn fwf(&self, g: &YaccGrammar) -> bool {
        &&& self.firsts@.len() == g.nrules() && self.epsilons@.len() == g.nrules()
        &&& forall|r: int| 0 <= r < g.nrules() ==> (#[trigger] self.firsts@[r])@.len() == g.ntok()
        &&& shape(g, self.F(), self.E())
        &&& forall|r: int| 0 <= r < g.nrules() ==> #[trigger] self.F()[r] == self.firsts@[r]@
    }

    pub fn firsts(&self, ridx: RIdx<$T>) -> (r: &Vob)
        requires (ridx.0 as nat) < self.firsts@.len(),
        ensures r@ == self.firsts@[ridx.0 as int]@, // OBL: C17.firsts.firsts_hands_out_the_row_of_that_rule
    {
        //@probe
        //@body file=cfgrammar/src/lib/yacc/firsts.rs fn=firsts
        //@endbody
    }
    pub fn is_set(&self, ridx: RIdx<$T>, tidx: TIdx<$T>) -> (r: bool)
        requires (ridx.0 as nat) < self.firsts@.len(), (tidx.0 as nat) < self.firsts@[ridx.0 as int]@.len(),
        ensures r == self.F()[ridx.0 as int][tidx.0 as int], // OBL: C17.firsts.is_set_reads_the_bit
    {
        //@probe
        //@body file=cfgrammar/src/lib/yacc/firsts.rs fn=is_set
        //@rule n=1 `self\.firsts\[usize::from\(ridx\)\]\[usize::from\(tidx\)\]` => `self.firsts[usize::from(ridx)].index(usize::from(tidx))`
        //@endbody
    }
    pub fn is_epsilon_set(&self, ridx: RIdx<$T>) -> (r: bool)
        requires (ridx.0 as nat) < self.epsilons@.len(),
        ensures r == self.E()[ridx.0 as int], // OBL: C17.firsts.is_epsilon_set_reads_the_bit
    {
        //@probe
        //@body file=cfgrammar/src/lib/yacc/firsts.rs fn=is_epsilon_set
        //@rule n=1 `self\.epsilons\[usize::from\(ridx\)\]` => `self.epsilons.index(usize::from(ridx))`
        //@endbody
    }
    pub fn set(&mut self, ridx: RIdx<$T>, tidx: TIdx<$T>) -> (r: bool)
        requires (ridx.0 as nat) < old(self).firsts@.len(), (tidx.0 as nat) < old(self).firsts@[ridx.0 as int]@.len(),
        ensures r == old(self).firsts@[ridx.0 as int]@[tidx.0 as int], // OBL: C17.firsts.set_returns_whether_already_set
            final(self).epsilons == old(self).epsilons && final(self).firsts@.len() == old(self).firsts@.len()
                && (forall|k: int| 0 <= k < old(self).firsts@.len() && k != ridx.0 ==> final(self).firsts@[k] == old(self).firsts@[k])
                && final(self).firsts@[ridx.0 as int]@.len() == old(self).firsts@[ridx.0 as int]@.len()
                && (forall|j: int| 0 <= j < old(self).firsts@[ridx.0 as int]@.len() ==> (#[trigger] final(self).firsts@[ridx.0 as int]@[j]) == (old(self).firsts@[ridx.0 as int]@[j] || j == tidx.0)), // OBL: C17.firsts.set_sets_exactly_one_bit
    {
        //@probe
        //@body file=cfgrammar/src/lib/yacc/firsts.rs fn=set
        //@rule n=1 `^(\s*)let r = &mut self\.firsts\[usize::from\(ridx\)\];\n` => ``
        //@rule n=1 `if r\[usize::from\(tidx\)\] \{` => `if self.firsts[usize::from(ridx)].index(usize::from(tidx)) {`
        //@rule n=1 `r\.set\(usize::from\(tidx\), true\);` => `vv_set(&mut self.firsts, usize::from(ridx), usize::from(tidx), true);`
        //@endbody
    }
}
//@use units/c17_firsts_new.inc

impl YaccFirsts {
    pub fn new(grm: &YaccGrammar) -> (r: YaccFirsts)
        requires grm.wf(),
        ensures r.fwf(grm),
            first_closed(grm, r.F(), r.E()), // OBL: C17.first_sets_contain_everything_the_rules_require
            first_least(grm, r.F(), r.E()), // OBL: C17.first_sets_contain_nothing_else
    {
        //@probe
        //@body file=cfgrammar/src/lib/yacc/firsts.rs fn=new
        //@rule n=1 `firsts: vec!\[\s*Vob::from_elem\(false, usize::from\(grm\.tokens_len\(\)\)\);\s*usize::from\(grm\.rules_len\(\)\)\s*\],` => `firsts: vv_new(false, usize::from(grm.tokens_len()), usize::from(grm.rules_len())),`
        //@rule n=1 `^\s*phantom: PhantomData,\n` => ``
        //@rule n=1 `prod\.is_empty\(\)` => `prod.len() == 0`
        //@rule n=* `firsts\.epsilons\[usize::from\((\w+)\)\]` => `firsts.epsilons.index(usize::from(\1))`
        //@rule n=1 `^(\s*)loop \{$` =>>
        proof {
            assert(firsts.fwf(grm));
            assert forall|F2: FS, E2: Seq<bool>| #[trigger] first_closed(grm, F2, E2) implies below(grm, firsts.F(), firsts.E(), F2, E2) by { }
        }
        loop
            invariant grm.wf(), firsts.fwf(grm), first_least(grm, firsts.F(), firsts.E()),
            decreases measure(firsts.F(), firsts.E()), // OBL: C17.firsts.fixed_point_terminates
        {
            //@probe
            let ghost F0 = firsts.F();
            let ghost E0 = firsts.E();
        //@end
        //@rule n=1 `^(\s*)for ridx in grm\.iter_rules\(\) \{$` =>>
            for ri_ in 0..usize::from(grm.rules_len())
                invariant
                        grm.wf(), firsts.fwf(grm), first_least(grm, firsts.F(), firsts.E()), shape(grm, F0, E0), // OBL: C17.first_sets_contain_nothing_else.maintained
                        !changed ==> firsts.F() =~~= F0 && firsts.E() =~= E0, // OBL: C17.firsts.changed_flag_tracks_every_change
                        measure(firsts.F(), firsts.E()) <= measure(F0, E0), changed ==> measure(firsts.F(), firsts.E()) < measure(F0, E0), // OBL: C17.firsts.every_change_sets_a_new_bit
                    !changed ==> forall|r: int, k: int| 0 <= r < ri_ && 0 <= k < grm.rule_prods()[r].len() ==> local_closed(grm, F0, E0, (#[trigger] grm.rule_prods()[r][k]).0 as int),
            {
                //@probe
                // dialect rule 5: iter_rules() is (0..rules_len).map(|x| RIdx(x.as_()))
                let ridx = RIdx(narrow_$T(ri_));
        //@end
        //@rule n=1 `^(\s*)for &pidx in grm\.rule_to_prods\(ridx\)\.iter\(\) \{$` =>>
                let ps_ = grm.rule_to_prods(ridx);
                let mut pk_next_: usize = 0;
                while pk_next_ < ps_.len()
                    invariant
                        grm.wf(), firsts.fwf(grm), first_least(grm, firsts.F(), firsts.E()), shape(grm, F0, E0), // OBL: C17.first_sets_contain_nothing_else.maintained
                        !changed ==> firsts.F() =~~= F0 && firsts.E() =~= E0, // OBL: C17.firsts.changed_flag_tracks_every_change
                        measure(firsts.F(), firsts.E()) <= measure(F0, E0), changed ==> measure(firsts.F(), firsts.E()) < measure(F0, E0), // OBL: C17.firsts.every_change_sets_a_new_bit
                        ri_ < grm.nrules(), ridx.0 == ri_, ps_@ == grm.rule_prods()[ri_ as int], pk_next_ <= ps_@.len(),
                        !changed ==> forall|r: int, k: int| 0 <= r < ri_ && 0 <= k < grm.rule_prods()[r].len() ==> local_closed(grm, F0, E0, (#[trigger] grm.rule_prods()[r][k]).0 as int),
                        !changed ==> forall|k: int| 0 <= k < pk_next_ ==> local_closed(grm, F0, E0, (#[trigger] ps_@[k]).0 as int), // OBL: C17.firsts.unchanged_pass_leaves_every_production_closed
                    decreases ps_@.len() - pk_next_,
                {
                    //@probe
                    // `for &pidx in ..iter()` as a while loop whose counter advances first (the body uses `continue`)
                    let pidx = ps_[pk_next_];
                    pk_next_ = pk_next_ + 1;
                    let ghost p = pidx.0 as int;
                    let ghost ch_p = changed;
                    assert(0 <= p < grm.nprods() && rule_of_(grm, p) == ri_);
        //@end
        //@rule n=1 `^(\s*)if !firsts\.is_epsilon_set\(ridx\) \{$` =>>
                        proof {
                            assert forall|F2: FS, E2: Seq<bool>| #[trigger] first_closed(grm, F2, E2) implies E2[ri_ as int] by {
                                assert(local_closed(grm, F2, E2, p));
                                assert(nullable_prefix(grm, E2, p, 0));
                            }
                            if !firsts.E()[ri_ as int] { lemma_eps_keeps_least(grm, firsts.F(), firsts.E(), firsts.E().update(ri_ as int, true), ri_ as int); lemma_count_set(firsts.E(), ri_ as int); }
                            else if !changed { assert(nullable_prefix(grm, E0, p, 0)); lemma_prod_closed(grm, F0, E0, p, 0, false); }
                        }
                        if !firsts.is_epsilon_set(ridx) {
        //@end
        //@rule n=1 `^(\s*)for \(sidx, sym\) in prod\.iter\(\)\.enumerate\(\) \{$` =>>
                    let mut sidx: usize = 0;
                    let ghost mut broke = false;
                    while sidx < prod.len()
                        invariant_except_break
                            !broke,
                            nullable_prefix(grm, firsts.E(), p, sidx as int), // OBL: C17.firsts.scan_continues_only_through_nullable_rules
                            !changed ==> forall|j: int, t: int| 0 <= j < sidx && 0 <= t < grm.ntok() && #[trigger] sym_first(grm, F0, p, j, t) ==> F0[ri_ as int][t],
                        invariant
                        grm.wf(), firsts.fwf(grm), first_least(grm, firsts.F(), firsts.E()), shape(grm, F0, E0), // OBL: C17.first_sets_contain_nothing_else.maintained
                        !changed ==> firsts.F() =~~= F0 && firsts.E() =~= E0, // OBL: C17.firsts.changed_flag_tracks_every_change
                        measure(firsts.F(), firsts.E()) <= measure(F0, E0), changed ==> measure(firsts.F(), firsts.E()) < measure(F0, E0), // OBL: C17.firsts.every_change_sets_a_new_bit
                            ri_ < grm.nrules(), ridx.0 == ri_, 0 <= p < grm.nprods(), rule_of_(grm, p) == ri_, prod@ == grm.prods()[p], prod@.len() > 0,
                            sidx <= prod@.len(), ch_p ==> changed,
                            (!changed && !broke && sidx == prod@.len()) ==> local_closed(grm, F0, E0, p), // OBL: C17.firsts.unchanged_production_is_closed.at_end
                            (!changed && broke) ==> local_closed(grm, F0, E0, p), // OBL: C17.firsts.unchanged_production_is_closed.at_break
                        ensures
                            !changed ==> local_closed(grm, F0, E0, p), // OBL: C17.firsts.unchanged_production_is_closed
                        decreases prod@.len() - sidx,
                    {
                        //@probe
                        // dialect rule 5: for (sidx, sym) in prod.iter().enumerate()
                        let sym = &prod[sidx];
                        let ghost Fpre = firsts.F();
                        let ghost Epre = firsts.E();
                        let ghost eps_set_here = false;
        //@end
        //@after n=1 `match \*sym \{` =>>
                        proof {
                            // symbol sidx was a nullable rule (otherwise we broke out)
                            assert(nullable_sym(grm, firsts.E(), p, sidx as int));
                            assert forall|j: int| 0 <= j < sidx + 1 implies #[trigger] nullable_sym(grm, firsts.E(), p, j) by { if j < sidx { assert(nullable_sym(grm, Epre, p, j)); } }
                            if !changed {
                                assert forall|j: int| 0 <= j < sidx + 1 implies #[trigger] nullable_sym(grm, E0, p, j) by { assert(nullable_sym(grm, firsts.E(), p, j)); }
                                if sidx + 1 == prod@.len() { lemma_prod_closed(grm, F0, E0, p, sidx + 1, false); }
                            }
                        }
                        sidx = sidx + 1;
        //@end
        //@rule n=1 `^(\s*)if !firsts\.set\(ridx, s_tidx\) \{$` =>>
                                proof {
                                    assert(grm.prods()[p][sidx as int] == Symbol::Token(s_tidx) && sym_is_token(grm, p, sidx as int));
                                    assert forall|F2: FS, E2: Seq<bool>| #[trigger] first_closed(grm, F2, E2) implies F2[ri_ as int][s_tidx.0 as int] by {
                                        assert(below(grm, firsts.F(), firsts.E(), F2, E2));
                                        lemma_prefix_mono(grm, firsts.E(), E2, p, sidx as int);
                                        assert(local_closed(grm, F2, E2, p));
                                    }
                                }
                                let was_set_ = firsts.set(ridx, s_tidx);
                                proof {
                                    lemma_set_keeps_least(grm, Fpre, Epre, firsts.F(), ri_ as int, s_tidx.0 as int);
                                    lemma_first_bit(grm, Fpre, firsts.F(), Epre, ri_ as int, s_tidx.0 as int, was_set_);
                                }
                                if !was_set_ {
        //@end
        //@rule n=2 `^(\s*)break;$` =>>
                                proof {
                                    broke = true;
                                    if !changed { lemma_prod_closed(grm, F0, E0, p, sidx as int, true); }
                                }
                                break;
        //@end
        //@rule n=1 `^(\s*)for tidx in grm\.iter_tidxs\(\) \{$` =>>
                                assert(grm.prods()[p][sidx as int] == Symbol::Rule(s_ridx) && (s_ridx.0 as nat) < grm.nrules());
                                for ti_ in 0..usize::from(grm.tokens_len())
                                    invariant
                        grm.wf(), firsts.fwf(grm), first_least(grm, firsts.F(), firsts.E()), shape(grm, F0, E0), // OBL: C17.first_sets_contain_nothing_else.maintained
                        !changed ==> firsts.F() =~~= F0 && firsts.E() =~= E0, // OBL: C17.firsts.changed_flag_tracks_every_change
                        measure(firsts.F(), firsts.E()) <= measure(F0, E0), changed ==> measure(firsts.F(), firsts.E()) < measure(F0, E0), // OBL: C17.firsts.every_change_sets_a_new_bit
                            ri_ < grm.nrules(), ridx.0 == ri_, 0 <= p < grm.nprods(), rule_of_(grm, p) == ri_, prod@ == grm.prods()[p], prod@.len() > 0,
                                        sidx < prod@.len(), !broke, ch_p ==> changed, prod@[sidx as int] == Symbol::Rule(s_ridx), (s_ridx.0 as nat) < grm.nrules(), firsts.E() == Epre,
                                        nullable_prefix(grm, firsts.E(), p, sidx as int),
                                        !changed ==> forall|j: int, t: int| 0 <= j < sidx && 0 <= t < grm.ntok() && #[trigger] sym_first(grm, F0, p, j, t) ==> F0[ri_ as int][t],
                                        !changed ==> forall|t: int| 0 <= t < ti_ && #[trigger] sym_first(grm, F0, p, sidx as int, t) ==> F0[ri_ as int][t], // OBL: C17.firsts.rule_symbol_contributes_its_firsts
                                {
                                    //@probe
                                    // dialect rule 5: iter_tidxs() is (0..tokens_len).map(|x| TIdx(x.as_()))
                                    let tidx = TIdx(narrow_$T(ti_));
                                    let ghost Fp = firsts.F();
        //@end
        //@after n=1 `if firsts\.is_set\(s_ridx, tidx\) && !firsts\.set\(ridx, tidx\) \{` =>>
                                    proof {
                                        if Fp[s_ridx.0 as int][ti_ as int] {
                                            assert forall|F2: FS, E2: Seq<bool>| #[trigger] first_closed(grm, F2, E2) implies F2[ri_ as int][ti_ as int] by {
                                                assert(below(grm, Fp, Epre, F2, E2));
                                                lemma_prefix_mono(grm, Epre, E2, p, sidx as int);
                                                assert(local_closed(grm, F2, E2, p));
                                                assert(sym_first(grm, F2, p, sidx as int, ti_ as int));
                                            }
                                            lemma_set_keeps_least(grm, Fp, Epre, firsts.F(), ri_ as int, ti_ as int);
                                            lemma_first_bit(grm, Fp, firsts.F(), Epre, ri_ as int, ti_ as int, Fp[ri_ as int][ti_ as int]);
                                        }
                                    }
        //@end
        //@rule n=1 `^(\s*)if firsts\.is_epsilon_set\(s_ridx\) && sidx == prod\.len\(\) - 1 \{$` =>>
                                proof {
                                    if firsts.E()[s_ridx.0 as int] && sidx == prod@.len() - 1 {
                                        assert forall|j: int| 0 <= j < prod@.len() implies #[trigger] nullable_sym(grm, firsts.E(), p, j) by { }
                                        assert forall|F2: FS, E2: Seq<bool>| #[trigger] first_closed(grm, F2, E2) implies E2[ri_ as int] by {
                                            assert(below(grm, firsts.F(), firsts.E(), F2, E2));
                                            lemma_prefix_mono(grm, firsts.E(), E2, p, prod@.len() as int);
                                            assert(local_closed(grm, F2, E2, p));
                                        }
                                        if !firsts.E()[ri_ as int] { lemma_eps_keeps_least(grm, firsts.F(), firsts.E(), firsts.E().update(ri_ as int, true), ri_ as int); lemma_count_set(firsts.E(), ri_ as int); }
                                    }
                                }
                                if firsts.is_epsilon_set(s_ridx) && sidx == prod.len() - 1 {
        //@end
        //@rule n=1 `^(\s*)if !changed \{\n(\s*)return firsts;$` =>>
            proof {
                if !changed {
                    assert(firsts.F() == F0 && firsts.E() == E0);
                    lemma_closed_all(grm, F0, E0);
                }
            }
            if !changed {
                return firsts;
        //@end
        //@endbody
    }
}
//@use prelude/tail.rs
