//@unit c17_costs__pins props=C17 widths=u32
//@use prelude/head.rs
// not under contract (see propnotes/C17.json): the rest of the sentence generator
//@pin file=cfgrammar/src/lib/yacc/grammar.rs fn=min_sentence sha=740f7593fc7b9784
//@pin file=cfgrammar/src/lib/yacc/grammar.rs fn=min_sentences sha=c5704ec97a7289a9
//@pin file=cfgrammar/src/lib/yacc/grammar.rs fn=min_sentence_cost sha=f7e9e5217f7e2415
//@pin file=cfgrammar/src/lib/yacc/grammar.rs fn=max_sentence_cost sha=dc93c7b2ab1270d4
//@use prelude/tail.rs
