//@unit c02_files__pins props=C02 widths=u32
//@use prelude/head.rs
// the source files the property is anchored in, pinned whole (test modules, comments and layout apart): a change to anything in
// them that is neither under contract nor pinned by name still makes this unit undecided, which sends the check to the
// property's bounded sweep of the real code
//@pinfile file=lrtable/src/lib/pager.rs sha=2691abd40282da88
//@pinfile file=lrtable/src/lib/itemset.rs sha=776d693e72401f17
//@pinfile file=lrtable/src/lib/statetable.rs sha=d87829631c7b15fa
//@use prelude/tail.rs
