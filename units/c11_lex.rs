//@unit c11_lex props=C11 widths=u32
//@use prelude/head.rs

//@use prelude/strs.rs
pub struct LexParser { pub slen: usize }
impl LexParser {
    pub fn mk_error(&self, kind: LexErrorKind, off: usize) -> (r: LexBuildError) { LexBuildError { kind, spans: vec![Span::new(off, off)] } }
    #[verifier::external_body] pub fn parse_start_state_ops(&self, s: Str) -> (r: (Str, StartStateOperation)) { unimplemented!() }
    #[verifier::external_body] pub fn get_start_state_by_name(&self, off: usize, s: Str) -> (r: Result<&StartState, LexBuildError>) { unimplemented!() }
    // `self.rules.iter().any(|r| ..dupe..)`: the duplicate-name check (not part of this clause)
    #[verifier::external_body] pub fn dupe_check(&self, name: &Option<StrBuf>, name_span: Span, errs: &mut Vec<LexBuildError>) -> (r: bool) { unimplemented!() }
}

pub struct RuleHead { pub name: Option<StrBuf>, pub name_span: Span, pub target_state: Option<(usize, StartStateOperation)>, pub dupe: bool }

//@ctx parse_rule: `line` is the slice of the source starting at `i`; `rspace` is the offset in `line` of the last space separator (one byte) before the name part
//@undecided char-boundary conditions of the slices (C12; lrlex parser units not built)
impl LexParser {
    fn rule_name_part(&self, i: usize, line: Str, rspace: usize, errs: &mut Vec<LexBuildError>) -> (r: Result<RuleHead, LexBuildError>)
        requires line.off == i, rspace < line.len, i + line.len <= self.slen, self.slen <= isize::MAX,
        ensures
            r matches Ok(h) ==> (h.name matches Some(n) ==> h.name_span.st == n.off && h.name_span.en == n.off + n.len), // OBL: C11.rule_name_span_reads_the_name_in_the_source
            r matches Ok(h) ==> h.name_span.st <= h.name_span.en <= self.slen, // OBL: C11.rule_name_span_indexes_the_source
    {
        //@probe
        //@body file=lrlex/src/lib/parser.rs fn=parse_rule block=`^\s*let name;$` endx=`^\s*if !dupe \{$`
        //@rule n=* `orig_name == r#""""#` => `orig_name.eq_lit(lit2())`
        //@builtin strlit
        //@rule n=1 `^(\s*)let name;$` => `\1let name: Option<StrBuf>;`
        //@rule n=1 `^(\s*)let target_state;$` => `\1let target_state: Option<(usize, StartStateOperation)>;`
        //@rule n=1 `^(\s*)let name_span;$` => `\1let name_span: Span;`
        //@rule n=* `&?\b(line|orig_name)\[([^\[\]]+?)\.\.\]` => `\1.from(\2)`
        //@rule n=* `&?\b(line|orig_name)\[([^\[\]]+?)\.\.([^\[\]]+?)\]` => `\1.sl(\2, \3)`
        //@rule n=* `orig_name == (lit\("[^"]*", \d+\))` => `orig_name.eq_lit(\1)`
        //@rule n=* `\.ends_with\('\\"'\)` => `.ends_with('"')`
        //@rule n=* `\.starts_with\('\\"'\)` => `.starts_with('"')`
        //@cut n=1 `self\.rules\.iter\(\)\.any\(` =>>
            self.dupe_check(&name, name_span, errs)
        //@end
        //@rule n=* `\bself\.` => `self.`
        //@endbody
        Ok(RuleHead { name, name_span, target_state, dupe })
    }
}

// ---- the two entry points: what text is the parser given? ----
pub struct Header { _x: usize }
pub struct LexFlags { _x: usize }
impl LexFlags { #[verifier::external_body] pub fn clone(&self) -> (r: LexFlags) { unimplemented!() } }
pub struct ParsedLex { _x: usize }
// GrmtoolsSectionParser::new(s, false).parse(): the header and the offset in `s` where it ends
#[verifier::external_body] pub fn header_parse(s: Str) -> (r: Result<(Header, usize), Vec<LexBuildError>>) ensures r matches Ok(hp) ==> hp.1 <= s.len { unimplemented!() }
#[verifier::external_body] pub fn flags_of(h: &mut Header) -> (r: Result<LexFlags, Vec<LexBuildError>>) { unimplemented!() }
// LexParser::new_with_lex_flags(src, start, flags): every span the parser makes is an offset
// into `src`, so `src` has to be the text the user wrote, from its first byte.
#[verifier::external_body] pub fn lexparser_new(src: StrBuf, start: usize, flags: LexFlags) -> (r: Result<ParsedLex, Vec<LexBuildError>>)
    requires src.off == 0, start <= src.len, // OBLG: C11.parser_is_given_the_whole_text_the_user_wrote
{ unimplemented!() }

//@ctx from_str/new_with_options: `s` is the text the user wrote (its offset 0 is the origin every span must use)
fn from_str(s: Str) -> (r: Result<ParsedLex, Vec<LexBuildError>>)
    requires s.off == 0,
{
    //@probe
    //@body file=lrlex/src/lib/lexer.rs fn=from_str nth=2
    //@rule n=1 `GrmtoolsSectionParser::new\(s, false\)\s*\.parse\(\)\s*\.map_err\(\|mut errs\| errs\.drain\(\.\.\)\.map\(LexBuildError::from\)\.collect::<Vec<_>>\(\)\)\?;` => `header_parse(s)?;`
    //@rule n=1 `LexFlags::try_from\(&mut header\)\.map_err\(\|e\| vec!\[e\.into\(\)\]\)\?` => `flags_of(&mut header)?`
    //@rule n=1 `LexParser::<LexerTypesT>::new_with_lex_flags\(` => `lexparser_new(`
    //@rule n=* `\bs\[([^\[\]]+?)\.\.\]` => `s.from(\1)`
    //@cut n=1 `\.map\(` =>>
    //@end
    //@endbody
}
fn new_with_options(s: Str, lex_flags: LexFlags) -> (r: Result<ParsedLex, Vec<LexBuildError>>)
    requires s.off == 0,
{
    //@probe
    //@body file=lrlex/src/lib/lexer.rs fn=new_with_options
    //@rule n=1 `GrmtoolsSectionParser::new\(s, false\)\s*\.parse\(\)\s*\.map_err\(\|mut errs\| errs\.drain\(\.\.\)\.map\(LexBuildError::from\)\.collect::<Vec<_>>\(\)\)\?;` => `header_parse(s)?;`
    //@rule n=1 `LexParser::<LexerTypesT>::new_with_lex_flags\(` => `lexparser_new(`
    //@rule n=* `\bs\[([^\[\]]+?)\.\.\]` => `s.from(\1)`
    //@cut n=1 `\.map\(` =>>
    //@end
    //@endbody
}


// ---- the start-state prefix of a rule and the escape rewriting of its regex ----
// what the (nested) unescape() does to a regex text, as a function of the text: the POSIX-lex escape table of the
// property ("a backslash before a character that is special neither to lex nor to the regex engine stands for that
// character"); its char_indices scanner is not under contract, the classification regex it uses is pinned
pub uninterp spec fn unesc(off: int, len: int) -> int;
pub open spec fn unesc_tail(s: Str, skip: int) -> int { unesc(s.off + skip, s.len - skip) }
//@expect file=lrlex/src/lib/parser.rs re=`Regex::new\(r"\^\(\(\[xuU\]\[\[:xdigit:\]\{\]\)\|\[\[:digit:\]\]\|\[afnrtv\\\\\]\|\[pP\]\|\[dDsSwW\]\|\[ABz\]\)"\)\.unwrap\(\)`
#[verifier::external_body] pub struct ReText { _x: usize }       // Cow<str>: the regex text handed to Rule::new
impl ReText { pub uninterp spec fn v(&self) -> int; }
#[verifier::external_body] pub fn cow_from(s: Str) -> (r: Str) ensures r == s { unimplemented!() }
#[verifier::external_body] pub fn unescape(re: Str, flags: &LexFlags) -> (r: ReText) ensures r.v() == unesc(re.off as int, re.len as int) { unimplemented!() }
// `re_str[1..j].split(',').map(trim).map(get_start_state_by_name).map(id).collect::<Result<Vec<usize>, _>>()`
#[verifier::external_body] pub fn state_ids(p: &StatesParser, off: usize, names: Str) -> (r: Result<Vec<usize>, LexBuildError>) { unimplemented!() }
pub struct StatesParser { pub lex_flags: LexFlags }
impl StatesParser { pub fn mk_error(&self, kind: LexErrorKind, off: usize) -> (r: LexBuildError) { LexBuildError { kind, spans: vec![Span::new(off, off)] } } }

impl StatesParser {
    //@ctx parse_start_states: `re_str` is the part of a rule line before the last separator (a slice of the source)
    fn parse_start_states(&self, off: usize, re_str: Str) -> (r: Result<(Vec<usize>, ReText), LexBuildError>)
        requires re_str.off + re_str.len <= isize::MAX,
        ensures
            r matches Ok(t) ==> exists|skip: int| 0 <= skip <= re_str.len && t.1.v() == #[trigger] unesc_tail(re_str, skip), // OBL: C11.the_regex_of_every_rule_is_escape_rewritten_with_or_without_start_states
    {
        //@probe
        let ghost re0_ = re_str;
        //@body file=lrlex/src/lib/parser.rs fn=parse_start_states
        //@rule n=* `^\s*///.*$` => ``
        //@cut n=1 `fn unescape<'b>\(re: Cow<'b, str>, lex_flags: &'_ LexFlags\) -> Cow<'b, str> \{` =>>
        //@end
        //@rule n=* `&?\bre_str\[([^\[\]]+?)\.\.\]` => `re_str.from(\1)`
        //@rule n=1 `re_str\[1\.\.j\]\s*\.split\(','\)\s*\.map\(\|s\| s\.trim_matches\(matches_whitespace\)\)\s*\.map\(\|s\| self\.get_start_state_by_name\(off, s\)\)\s*\.map\(\|s\| s\.map\(\|ss\| ss\.id\)\)\s*\.collect::<LexInternalBuildResult<Vec<usize>>>\(\)\?` => `state_ids(self, off, re_str.sl(1, j))?`
        //@rule n=1 `\(vec!\[\], re_str\)` => `(Vec::new(), re_str)`
        //@rule n=* `Cow::from\(` => `cow_from(`
        //@rule n=1 `^(\s*)Ok\(\(start_states, unescape\(` => `\1proof { let skip_ = re_str.off - re0_.off; assert(0 <= skip_ <= re0_.len && re_str.len == re0_.len - skip_); assert(unesc_tail(re0_, skip_) == unesc(re_str.off as int, re_str.len as int)); }\n\1Ok((start_states, unescape(`
        //@endbody
    }
}
//@use prelude/tail.rs
