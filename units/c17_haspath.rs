//@unit c17_haspath props=C17 widths=u32
//@use prelude/head.rs
//@use prelude/grammar.rs

// ---------------- specification: reachability through productions ----------------
// rule a mentions rule b in one of its productions
pub open spec fn edge(g: &YaccGrammar, a: int, b: int) -> bool {
    exists|k: int, i: int| 0 <= k < g.rule_prods()[a].len() && 0 <= i < g.prods()[g.rule_prods()[a][k].0 as int].len()
        && #[trigger] g.prods()[g.rule_prods()[a][k].0 as int][i] == Symbol::Rule(RIdx(b as $T))
}
// a path: at least one production step, every rule index valid, consecutive rules linked
pub open spec fn is_path(g: &YaccGrammar, p: Seq<int>) -> bool {
    &&& p.len() >= 2
    &&& forall|i: int| 0 <= i < p.len() ==> 0 <= #[trigger] p[i] < g.nrules()
    &&& forall|i: int| 0 <= i < p.len() - 1 ==> edge(g, #[trigger] p[i], p[i + 1])
}
pub open spec fn reach(g: &YaccGrammar, a: int, b: int) -> bool { exists|p: Seq<int>| #[trigger] is_path(g, p) && p[0] == a && p.last() == b }

pub open spec fn count_false(s: Seq<bool>) -> nat
    decreases s.len()
{ if s.len() == 0 { 0 } else { count_false(s.drop_last()) + (if s.last() { 0nat } else { 1nat }) } }
pub proof fn lemma_count_set(s: Seq<bool>, i: int)
    requires 0 <= i < s.len(), !s[i]
    ensures count_false(s.update(i, true)) + 1 == count_false(s)
    decreases s.len()
{
    let s2 = s.update(i, true);
    if i == s.len() - 1 { assert(s2.drop_last() =~= s.drop_last()); }
    else { assert(s2.drop_last() =~= s.drop_last().update(i, true)); lemma_count_set(s.drop_last(), i); }
}
// a set that contains `from`, is closed under edges and has no edge into `to` contains
// every rule on every path from `from`, and `to` is on none of them
pub proof fn lemma_closed(g: &YaccGrammar, from: int, to: int, seen: Seq<bool>, p: Seq<int>, i: int)
    requires g.wf(), seen.len() == g.nrules(), 0 <= from < g.nrules(), seen[from],
        forall|a: int, c: int| 0 <= a < g.nrules() && 0 <= c < g.nrules() && seen[a] && #[trigger] edge(g, a, c) ==> c != to && seen[c],
        is_path(g, p), p[0] == from, 0 <= i < p.len(),
    ensures seen[p[i]], i > 0 ==> p[i] != to,
    decreases i
{
    if i > 0 { lemma_closed(g, from, to, seen, p, i - 1); assert(edge(g, p[i - 1], p[i])); }
}
pub proof fn lemma_reach_step(g: &YaccGrammar, from: int, a: int, b: int)
    requires 0 <= from < g.nrules(), 0 <= a < g.nrules(), 0 <= b < g.nrules(), a == from || reach(g, from, a), edge(g, a, b)
    ensures reach(g, from, b)
{
    if a == from {
        let p = seq![from, b];
        assert(is_path(g, p)) by { assert forall|i: int| 0 <= i < p.len() - 1 implies edge(g, #[trigger] p[i], p[i + 1]) by { assert(i == 0); } }
        assert(p[0] == from && p.last() == b);
    } else {
        let p0 = choose|p: Seq<int>| #[trigger] is_path(g, p) && p[0] == from && p.last() == a;
        let p = p0.push(b);
        assert(is_path(g, p)) by {
            assert forall|i: int| 0 <= i < p.len() - 1 implies edge(g, #[trigger] p[i], p[i + 1]) by {
                if i < p0.len() - 1 { assert(p[i] == p0[i] && p[i + 1] == p0[i + 1]); } else { assert(p[i] == a && p[i + 1] == b); }
            }
        }
        assert(p[0] == from && p.last() == b);
    }
}

pub struct G { pub g: YaccGrammar }
impl G {
    // the accessors has_path uses, with the contracts of the grammar stand-in
    pub fn rules_len(&self) -> (r: RIdx<$T>) ensures r.0 == self.g.nrules() { self.g.rules_len() }
    pub fn rule_to_prods(&self, r: RIdx<$T>) -> (ps: &[PIdx<$T>]) requires (r.0 as nat) < self.g.nrules() ensures ps@ == self.g.rule_prods()[r.0 as int] { self.g.rule_to_prods(r) }
    pub fn prod(&self, p: PIdx<$T>) -> (r: &[Symbol<$T>]) requires (p.0 as nat) < self.g.nprods() ensures r@ == self.g.prods()[p.0 as int] { self.g.prod(p) }

    pub fn has_path(&self, from: RIdx<$T>, to: RIdx<$T>) -> (r: bool)
        requires self.g.wf(), (from.0 as nat) < self.g.nrules(), (to.0 as nat) < self.g.nrules(),
        ensures r == reach(&self.g, from.0 as int, to.0 as int), // OBL: C17.has_path_is_reachability_through_productions
    {
        //@probe
        let ghost g = &self.g;
        let ghost nr = self.g.nrules() as int;
        let ghost f = from.0 as int;
        let ghost t = to.0 as int;
        //@body file=cfgrammar/src/lib/yacc/grammar.rs fn=has_path
        //@rule n=* `for ridx in self\.iter_rules\(\) \{` => `for ridx in self.iter_rules().skip(0) {`
        //@rule n=1 `^(\s*)loop \{$` =>>
        loop
            invariant
                g == &self.g, g.wf(), nr == g.nrules(), f == from.0, t == to.0, 0 <= f < nr, 0 <= t < nr,
                seen@.len() == nr, todo@.len() == nr,
                forall|r: int| 0 <= r < nr && (#[trigger] seen@[r] || todo@[r]) ==> r == f || reach(g, f, r), // OBL: C17.has_path.visited_rules_are_reachable
                forall|r: int| 0 <= r < nr && #[trigger] todo@[r] ==> !seen@[r],
                seen@[f] || todo@[f],
                forall|a: int, c: int| 0 <= a < nr && 0 <= c < nr && seen@[a] && #[trigger] edge(g, a, c) ==> c != t && (seen@[c] || todo@[c]), // OBL: C17.has_path.seen_rules_are_fully_expanded
            decreases count_false(seen@), // OBL: C17.has_path.terminates
        {
            //@probe
            let ghost seen_at_pass_start = seen@;
        //@end
        //@rule n=1 `^(\s*)for ridx in self\.iter_rules\(\)\.skip\((.*)\) \{$` =>>
            // dialect rule 5: iter_rules() is (0..rules_len).map(|x| RIdx(x.as_())); `.skip(k)` is the lower bound
            let mut ri_next_: usize = \2;
            while ri_next_ < usize::from(self.rules_len())
                invariant
                    g == &self.g, g.wf(), nr == g.nrules(), f == from.0, t == to.0, 0 <= f < nr, 0 <= t < nr,
                    seen@.len() == nr, todo@.len() == nr, ri_next_ <= nr,
                    forall|r: int| 0 <= r < nr && (#[trigger] seen@[r] || todo@[r]) ==> r == f || reach(g, f, r),
                    forall|r: int| 0 <= r < nr && #[trigger] todo@[r] ==> !seen@[r],
                    seen@[f] || todo@[f],
                    forall|a: int, c: int| 0 <= a < nr && 0 <= c < nr && seen@[a] && #[trigger] edge(g, a, c) ==> c != t && (seen@[c] || todo@[c]),
                    empty ==> seen@ == seen_at_pass_start && forall|r: int| 0 <= r < ri_next_ ==> !(#[trigger] todo@[r]), // OBL: C17.has_path.empty_pass_saw_every_rule
                    !empty ==> count_false(seen@) < count_false(seen_at_pass_start),
                    count_false(seen@) <= count_false(seen_at_pass_start),
                decreases nr - ri_next_,
            {
                //@probe
                let ri_ = ri_next_;
                ri_next_ = ri_next_ + 1;
                let ridx = RIdx(narrow_$T(ri_));
        //@end
        //@rule n=1 `^(\s*)seen\[usize::from\(ridx\)\] = true;$` =>>
                proof { lemma_count_set(seen@, ri_ as int); }
                seen[usize::from(ridx)] = true;
        //@end
        //@rule n=1 `^(\s*)for pidx in self\.rule_to_prods\(ridx\)\.iter\(\) \{$` =>>
                let ps_ = self.rule_to_prods(ridx);
                for pk_ in 0..ps_.len()
                    invariant
                        g == &self.g, g.wf(), nr == g.nrules(), f == from.0, t == to.0, 0 <= f < nr, 0 <= t < nr,
                        seen@.len() == nr, todo@.len() == nr, ri_ < nr, ridx.0 == ri_, ps_@ == g.rule_prods()[ri_ as int], seen@[ri_ as int], !todo@[ri_ as int],
                        forall|r: int| 0 <= r < nr && (#[trigger] seen@[r] || todo@[r]) ==> r == f || reach(g, f, r),
                        forall|r: int| 0 <= r < nr && #[trigger] todo@[r] ==> !seen@[r],
                        seen@[f] || todo@[f],
                        forall|a: int, c: int| 0 <= a < nr && 0 <= c < nr && a != ri_ && seen@[a] && #[trigger] edge(g, a, c) ==> c != t && (seen@[c] || todo@[c]),
                        forall|k: int, i: int| 0 <= k < pk_ && 0 <= i < g.prods()[ps_@[k].0 as int].len() ==>
                            (#[trigger] g.prods()[ps_@[k].0 as int][i] matches Symbol::Rule(c) ==> c.0 != t && (seen@[c.0 as int] || todo@[c.0 as int])),
                {
                    //@probe
                    let pidx = &ps_[pk_];
        //@end
        //@rule n=1 `^(\s*)for sym in self\.prod\(\*pidx\) \{$` =>>
                    let syms_ = self.prod(*pidx);
                    for sk_ in 0..syms_.len()
                        invariant
                            g == &self.g, g.wf(), nr == g.nrules(), f == from.0, t == to.0, 0 <= f < nr, 0 <= t < nr,
                            seen@.len() == nr, todo@.len() == nr, ri_ < nr, ridx.0 == ri_, ps_@ == g.rule_prods()[ri_ as int], seen@[ri_ as int], !todo@[ri_ as int],
                            pk_ < ps_@.len(), syms_@ == g.prods()[ps_@[pk_ as int].0 as int],
                            forall|r: int| 0 <= r < nr && (#[trigger] seen@[r] || todo@[r]) ==> r == f || reach(g, f, r),
                            forall|r: int| 0 <= r < nr && #[trigger] todo@[r] ==> !seen@[r],
                            seen@[f] || todo@[f],
                            forall|a: int, c: int| 0 <= a < nr && 0 <= c < nr && a != ri_ && seen@[a] && #[trigger] edge(g, a, c) ==> c != t && (seen@[c] || todo@[c]),
                            forall|k: int, i: int| 0 <= k < pk_ && 0 <= i < g.prods()[ps_@[k].0 as int].len() ==>
                                (#[trigger] g.prods()[ps_@[k].0 as int][i] matches Symbol::Rule(c) ==> c.0 != t && (seen@[c.0 as int] || todo@[c.0 as int])),
                            forall|i: int| 0 <= i < sk_ ==> (#[trigger] syms_@[i] matches Symbol::Rule(c) ==> c.0 != t && (seen@[c.0 as int] || todo@[c.0 as int])),
                    {
                        //@probe
                        let sym = &syms_[sk_];
                        proof {
                            if let Symbol::Rule(c) = syms_@[sk_ as int] {
                                assert(g.prods()[g.rule_prods()[ri_ as int][pk_ as int].0 as int][sk_ as int] == Symbol::Rule(RIdx::<$T>(c.0 as int as $T)));
                                assert(edge(g, ri_ as int, c.0 as int));
                                lemma_reach_step(g, f, ri_ as int, c.0 as int);
                            }
                        }
        //@end
        //@rule n=1 `^(\s*)if p_ridx == to \{$` => `\1if p_ridx.0 == to.0 {`
        //@rule n=1 `^(\s*)if empty \{$` =>>
            proof {
                if empty {
                    assert forall|p: Seq<int>| #[trigger] is_path(g, p) && p[0] == f implies p.last() != t by { lemma_closed(g, f, t, seen@, p, p.len() - 1); }
                }
            }
            if empty {
        //@end
        //@endbody
    }
}
//@use prelude/tail.rs
