//@unit c06_moves props=C06,C07,C05 widths=u32
//@use prelude/head.rs
//@use prelude/lrpar.rs

// ---- stand-ins ----
#[derive(Clone, Copy, PartialEq, Eq)] pub enum Repair { InsertTerm(TIdx<$T>), Delete, Shift }
#[verifier::external_body] pub struct MergeRest { _x: usize }
pub enum RepairMerge { Repair(Repair), Merge(Repair, MergeRest), Terminator }
// Cactus<RepairMerge>: the repairs made so far, most recent first
#[verifier::external_body] pub struct Cactus { _x: usize }
impl Cactus {
    pub uninterp spec fn svals(&self) -> Seq<RepairMerge>;
    #[verifier::external_body] pub fn child(&self, x: RepairMerge) -> (r: Cactus) ensures r.svals() == seq![x] + self.svals() { unimplemented!() }
    #[verifier::external_body] pub fn clone(&self) -> (r: Cactus) ensures r.svals() == self.svals() { unimplemented!() }
    // values from this node towards the root, as Cactus::vals() yields them
    #[verifier::external_body] pub fn vals_vec(&self) -> (r: &Vec<RepairMerge>) ensures r@ == self.svals() { unimplemented!() }
    // `*c.val().unwrap()`: the most recent value (a search node's repair list always holds at least the terminator)
    #[verifier::external_body] pub fn first(&self) -> (r: &RepairMerge)
        requires self.svals().len() > 0, // OBLG: C07.moves.repair_list_of_a_search_node_is_never_empty
        ensures *r == self.svals()[0]
    { unimplemented!() }
}
// Cactus<StIdx>: the parse stack of a search node
#[verifier::external_body] pub struct PStackC { _x: usize }
impl PStackC {
    pub uninterp spec fn s(&self) -> Seq<StIdx<$T>>;
    // `*pstack.val().unwrap()`: the top of the stack
    #[verifier::external_body] pub fn top(&self) -> (r: StIdx<$T>)
        requires self.s().len() > 0, // OBLG: C07.moves.parse_stack_of_a_search_node_is_never_empty
        ensures r == self.s().last()
    { unimplemented!() }
    #[verifier::external_body] pub fn clone(&self) -> (r: PStackC) ensures r.s() == self.s() { unimplemented!() }
    #[verifier::external_body] pub fn ne(&self, other: &PStackC) -> (r: bool) ensures r == (self.s() != other.s()) { unimplemented!() }
}
pub struct PathFNode { pub pstack: PStackC, pub laidx: usize, pub repairs: Cactus, pub cf: u16 }
#[verifier::external_body] pub struct Grm { _x: usize }
impl Grm { pub uninterp spec fn seof(&self) -> TIdx<$T>;
    #[verifier::external_body] pub fn eof_token_idx(&self) -> (r: TIdx<$T>) ensures r == self.seof() { unimplemented!() } }
#[verifier::external_body] pub struct STable { _x: usize }
impl STable {
    // dialect: `state_actions(st)` (an iterator over the tokens with a non-error action) as a list
    pub uninterp spec fn sacts(&self, st: StIdx<$T>) -> Seq<TIdx<$T>>;
    #[verifier::external_body] pub fn state_actions_vec(&self, st: StIdx<$T>) -> (r: Vec<TIdx<$T>>) ensures r@ == self.sacts(st) { unimplemented!() }
    pub uninterp spec fn sact(&self, st: StIdx<$T>, t: TIdx<$T>) -> ActionK;
    #[verifier::external_body] pub fn action(&self, st: StIdx<$T>, t: TIdx<$T>) -> (r: ActionK) ensures r == self.sact(st, t) { unimplemented!() }
}
#[derive(Clone, Copy, PartialEq, Eq)] pub enum ActionK { Shift(StIdx<$T>), Reduce(PIdx<$T>), Accept, Error }
pub struct Parser { pub grm: Grm, pub stable: STable, pub nlexemes: usize }
impl Parser {
    pub uninterp spec fn snext(&self, laidx: int) -> LexemeT;
    pub uninterp spec fn snext_tidx(&self, laidx: int) -> TIdx<$T>;
    pub uninterp spec fn scost(&self, t: TIdx<$T>) -> u8;
    #[verifier::external_body] pub fn next_lexeme(&self, laidx: usize) -> (r: LexemeT) ensures r == self.snext(laidx as int) { unimplemented!() }
    #[verifier::external_body] pub fn next_tidx(&self, laidx: usize) -> (r: TIdx<$T>) ensures r == self.snext_tidx(laidx as int) { unimplemented!() }
    // `(self.parser.token_cost)(tidx)`: the user's cost function
    #[verifier::external_body] pub fn token_cost(&self, t: TIdx<$T>) -> (r: u8) ensures r == self.scost(t) { unimplemented!() }
    pub fn lexemes_len(&self) -> (r: usize) ensures r == self.nlexemes { self.nlexemes }
    // lr_cactus(prefix, laidx, end, pstack, &mut None): LR parsing on a cactus stack until `end`: bounds and non-empty stack proved in unit c05_cactus (the calls here pass end = laidx + 1)
    pub uninterp spec fn cact_la(&self, prefix: Option<LexemeT>, laidx: usize, end: usize, st: Seq<StIdx<$T>>) -> usize;
    pub uninterp spec fn cact_st(&self, prefix: Option<LexemeT>, laidx: usize, end: usize, st: Seq<StIdx<$T>>) -> Seq<StIdx<$T>>;
    #[verifier::external_body] pub fn lr_cactus(&self, lexeme_prefix: Option<LexemeT>, laidx: usize, end_laidx: usize, pstack: PStackC) -> (r: (usize, PStackC))
        ensures laidx <= r.0 <= end_laidx || r.0 == laidx, r.0 == self.cact_la(lexeme_prefix, laidx, end_laidx, pstack.s()), r.1.s() == self.cact_st(lexeme_prefix, laidx, end_laidx, pstack.s()), r.1.s().len() > 0
    { unimplemented!() }
}
pub struct CPCTPlus { pub parser: Parser }
pub fn u16_from(x: u8) -> (r: u16) ensures r == x as u16 { x as u16 }

// ---------------- specification ----------------
pub open spec fn last_repair(n: PathFNode) -> RepairMerge { n.repairs.svals()[0] }
// nn is n extended by one repair r that costs c
pub open spec fn extends(nn: PathFNode, n: PathFNode, r: Repair, c: int) -> bool {
    nn.repairs.svals() == seq![RepairMerge::Repair(r)] + n.repairs.svals() && nn.cf == n.cf + c
}

// the zero-length faulty lexeme an insert of t at node n feeds to the parser, and what makes that insert a neighbour
pub open spec fn ins_lexeme(p: &Parser, n: &PathFNode, t: TIdx<$T>) -> LexemeT { lx_new(t.0, p.snext(n.laidx as int).sspan().st, 0, true) }
pub open spec fn ins_possible(this: &CPCTPlus, n: &PathFNode, t: TIdx<$T>) -> bool {
    t != this.parser.grm.seof() && n.cf + this.parser.scost(t) <= u16::MAX
        && this.parser.cact_la(Some(ins_lexeme(&this.parser, n, t)), n.laidx, (n.laidx + 1) as usize, n.pstack.s()) > n.laidx
}
pub open spec fn ins_at(this: &CPCTPlus, nb: (u16, PathFNode), n: &PathFNode, t: TIdx<$T>) -> bool {
    extends(nb.1, *n, Repair::InsertTerm(t), this.parser.scost(t) as int)
        && nb.1.pstack.s() == this.parser.cact_st(Some(ins_lexeme(&this.parser, n, t)), n.laidx, (n.laidx + 1) as usize, n.pstack.s())
}
pub open spec fn has_insert(this: &CPCTPlus, nbrs: Seq<(u16, PathFNode)>, from: int, n: &PathFNode, t: TIdx<$T>) -> bool {
    exists|k: int| from <= k < nbrs.len() && ins_at(this, #[trigger] nbrs[k], n, t)
}

impl CPCTPlus {
    //@ctx insert/delete/shift: a search node's parse stack is never empty and its position is at most the number of lexemes
    fn insert(&self, n: &PathFNode, nbrs: &mut Vec<(u16, PathFNode)>)
        requires n.pstack.s().len() > 0, n.laidx <= self.parser.nlexemes, self.parser.nlexemes < usize::MAX,
        ensures final(nbrs)@.len() >= old(nbrs)@.len(), forall|k: int| 0 <= k < old(nbrs)@.len() ==> final(nbrs)@[k] == old(nbrs)@[k],
            forall|k: int| old(nbrs)@.len() <= k < final(nbrs)@.len() ==> {
                let nn = (#[trigger] final(nbrs)@[k]).1;
                &&& final(nbrs)@[k].0 == nn.cf && nn.laidx == n.laidx
                &&& exists|t: TIdx<$T>| t != self.parser.grm.seof() && extends(nn, *n, Repair::InsertTerm(t), self.parser.scost(t) as int)
            }, // OBL: C06.an_end_of_input_token_is_never_inserted C06.an_insert_costs_its_token_cost_and_consumes_no_input
            forall|j: int| 0 <= j < self.parser.stable.sacts(n.pstack.s().last()).len() && ins_possible(self, n, #[trigger] self.parser.stable.sacts(n.pstack.s().last())[j])
                ==> has_insert(self, final(nbrs)@, old(nbrs)@.len() as int, n, self.parser.stable.sacts(n.pstack.s().last())[j]), // OBL: C06.every_token_the_state_has_an_action_for_is_tried_as_an_insert
    {
        //@probe
        //@body file=lrpar/src/lib/cpctplus.rs fn=insert
        //@rule n=* `\$T::from\(u32::from\((\w+)\)\)\.unwrap\(\)` => `tok_id_of(\1)`
        //@rule n=1 `^(\s*)for tidx in self\.parser\.stable\.state_actions\(\*n\.pstack\.val\(\)\.unwrap\(\)\) \{$` =>>
        let acts_ = self.parser.stable.state_actions_vec(n.pstack.top());
        let mut ai_: usize = 0;
        while ai_ < acts_.len()
            invariant ai_ <= acts_@.len(), laidx == n.laidx, n.laidx <= self.parser.nlexemes, self.parser.nlexemes < usize::MAX,
                acts_@ == self.parser.stable.sacts(n.pstack.s().last()),
                forall|j: int| 0 <= j < ai_ && ins_possible(self, n, #[trigger] acts_@[j]) ==> has_insert(self, nbrs@, old(nbrs)@.len() as int, n, acts_@[j]), // OBL: C06.every_token_the_state_has_an_action_for_is_tried_as_an_insert
                nbrs@.len() >= old(nbrs)@.len(), forall|k: int| 0 <= k < old(nbrs)@.len() ==> nbrs@[k] == old(nbrs)@[k],
                forall|k: int| old(nbrs)@.len() <= k < nbrs@.len() ==> {
                    let nn = (#[trigger] nbrs@[k]).1;
                    &&& nbrs@[k].0 == nn.cf && nn.laidx == n.laidx
                    &&& exists|t: TIdx<$T>| t != self.parser.grm.seof() && extends(nn, *n, Repair::InsertTerm(t), self.parser.scost(t) as int)
                },
            decreases acts_@.len() - ai_,
        {
            //@probe
            let tidx = acts_[ai_];
            ai_ = ai_ + 1;
        //@end
        //@rule n=1 `if tidx == self\.parser\.grm\.eof_token_idx\(\) \{` => `if tidx.0 == self.parser.grm.eof_token_idx().0 {`
        //@rule n=1 `\(self\.parser\.token_cost\)\(tidx\)` => `self.parser.token_cost(tidx)`
        //@rule n=1 `u16::from\(` => `u16_from(`
        //@rule n=1 `,\s*&mut None,\s*\)` => `)`
        // dialect: `let Some(x) = E else { continue; };`
        //@rule n=1 `let Some\(cf\) = (n\s*\.cf\s*\.checked_add\([^;]*\)\))\s*else \{\s*continue;\s*\};` => `let cf = match \1 { Some(v_) => v_, None => { continue; } };`
        //@rule n=1 `^(\s*)nbrs\.push\(\(nn\.cf, nn\)\);` =>>
                let ghost nbrs0_ = nbrs@;
                proof { assert(extends(nn, *n, Repair::InsertTerm(tidx), self.parser.scost(tidx) as int)); }
                let ghost nn_ = nn;
                nbrs.push((nn.cf, nn));
                proof {
                    assert forall|k: int| 0 <= k < nbrs0_.len() implies nbrs@[k] == nbrs0_[k] by { }
                    assert forall|j: int| 0 <= j < ai_ && ins_possible(self, n, #[trigger] acts_@[j]) implies has_insert(self, nbrs@, old(nbrs)@.len() as int, n, acts_@[j]) by {
                        if j < ai_ - 1 {
                            let k = choose|k: int| old(nbrs)@.len() <= k < nbrs0_.len() && ins_at(self, #[trigger] nbrs0_[k], n, acts_@[j]);
                            assert(nbrs@[k] == nbrs0_[k]);
                        } else {
                            assert(nbrs@[nbrs@.len() - 1].1 == nn_);
                            assert(ins_at(self, nbrs@[nbrs@.len() - 1], n, tidx));
                        }
                    }
                }
        //@end
        //@endbody
    }

    fn delete(&self, n: &PathFNode, nbrs: &mut Vec<(u16, PathFNode)>)
        requires n.laidx <= self.parser.nlexemes, self.parser.nlexemes < usize::MAX,
        ensures final(nbrs)@.len() >= old(nbrs)@.len(), final(nbrs)@.len() <= old(nbrs)@.len() + 1, forall|k: int| 0 <= k < old(nbrs)@.len() ==> final(nbrs)@[k] == old(nbrs)@[k],
            n.laidx == self.parser.nlexemes ==> final(nbrs)@.len() == old(nbrs)@.len(), // OBL: C06.nothing_is_deleted_at_the_end_of_input
            n.laidx < self.parser.nlexemes && n.cf + self.parser.scost(self.parser.snext_tidx(n.laidx as int)) <= u16::MAX ==> final(nbrs)@.len() == old(nbrs)@.len() + 1, // OBL: C06.deleting_the_next_lexeme_is_always_a_move
            final(nbrs)@.len() == old(nbrs)@.len() + 1 ==> {
                let nn = final(nbrs)@.last().1;
                &&& final(nbrs)@.last().0 == nn.cf && nn.laidx == n.laidx + 1 && nn.pstack.s() == n.pstack.s()
                &&& extends(nn, *n, Repair::Delete, self.parser.scost(self.parser.snext_tidx(n.laidx as int)) as int)
            }, // OBL: C06.a_delete_costs_the_deleted_token_and_consumes_it
    {
        //@probe
        //@body file=lrpar/src/lib/cpctplus.rs fn=delete
        //@rule n=1 `self\.parser\.lexemes\.len\(\)` => `self.parser.lexemes_len()`
        //@rule n=1 `\(self\.parser\.token_cost\)\(la_tidx\)` => `self.parser.token_cost(la_tidx)`
        //@rule n=1 `u16::from\(` => `u16_from(`
        // dialect: `let Some(x) = E else { return; };`
        //@rule n=1 `let Some\(cf\) = (n\.cf\.checked_add\([^;]*\)\)) else \{\s*return;\s*\};` => `let cf = match \1 { Some(v_) => v_, None => { return; } };`
        //@endbody
    }

    fn shift(&self, n: &PathFNode, nbrs: &mut Vec<(u16, PathFNode)>)
        requires n.laidx <= self.parser.nlexemes, self.parser.nlexemes < usize::MAX,
        ensures final(nbrs)@.len() >= old(nbrs)@.len(), final(nbrs)@.len() <= old(nbrs)@.len() + 1, forall|k: int| 0 <= k < old(nbrs)@.len() ==> final(nbrs)@[k] == old(nbrs)@[k],
            // a lexeme that plain parsing can shift always gives a neighbour (also when the stack comes out with the same states)
            self.parser.cact_la(None, n.laidx, (n.laidx + 1) as usize, n.pstack.s()) > n.laidx ==> final(nbrs)@.len() == old(nbrs)@.len() + 1, // OBL: C06.shifting_a_lexeme_is_always_a_move
            ({ let st1 = self.parser.cact_st(None, n.laidx, (n.laidx + 1) as usize, n.pstack.s());
               st1 != n.pstack.s() && self.parser.stable.sact(st1.last(), self.parser.snext_tidx(n.laidx as int)) == ActionK::Accept })
                ==> final(nbrs)@.len() == old(nbrs)@.len() + 1, // OBL: C06.reductions_that_reach_acceptance_are_always_a_move
            final(nbrs)@.len() == old(nbrs)@.len() + 1 ==> {
                let nn = final(nbrs)@.last().1;
                &&& final(nbrs)@.last().0 == nn.cf && nn.cf == n.cf // OBL: C06.a_shift_costs_nothing
                &&& nn.laidx == self.parser.cact_la(None, n.laidx, (n.laidx + 1) as usize, n.pstack.s()) && nn.pstack.s() == self.parser.cact_st(None, n.laidx, (n.laidx + 1) as usize, n.pstack.s())
                &&& (nn.laidx > n.laidx ==> nn.repairs.svals() == seq![RepairMerge::Repair(Repair::Shift)] + n.repairs.svals())
                &&& (nn.laidx <= n.laidx ==> nn.repairs.svals() == n.repairs.svals())
            }, // OBL: C06.a_shift_is_recorded_exactly_when_a_lexeme_was_consumed
            // a neighbour that consumed nothing carries reductions made under the current lookahead: it is only kept when the parser accepts from it
            final(nbrs)@.len() == old(nbrs)@.len() + 1 && final(nbrs)@.last().1.laidx <= n.laidx ==>
                self.parser.stable.sact(final(nbrs)@.last().1.pstack.s().last(), self.parser.snext_tidx(n.laidx as int)) == ActionK::Accept, // OBL: C05.reductions_without_a_shift_are_only_kept_when_the_parser_accepts C07.reductions_without_a_shift_are_only_kept_when_the_parser_accepts
    {
        //@probe
        //@body file=lrpar/src/lib/cpctplus.rs fn=shift
        //@rule n=1 `\.lr_cactus\(None, laidx, laidx \+ 1, n\.pstack\.clone\(\), &mut None\)` => `.lr_cactus(None, laidx, laidx + 1, n.pstack.clone())`
        //@rule n=* `n\.pstack != n_pstack` => `n.pstack.ne(&n_pstack)`
        //@rule n=* `\*n_pstack\.val\(\)\.unwrap\(\)` => `n_pstack.top()`
        //@rule n=* `Action::Accept` => `ActionK::Accept`
        //@endbody
    }
}

// ---- when may two search nodes be merged? (PartialEq for PathFNode) ----
pub open spec fn is_shift_rm(x: RepairMerge) -> bool { x matches RepairMerge::Repair(Repair::Shift) || x matches RepairMerge::Merge(Repair::Shift, _) }
// number of shifts at the recent end of a repair list
pub open spec fn lead_shifts(v: Seq<RepairMerge>) -> nat
    decreases v.len()
{ if v.len() == 0 || !is_shift_rm(v[0]) { 0 } else { 1 + lead_shifts(v.drop_first()) } }
pub open spec fn last_rep(v: Seq<RepairMerge>) -> Option<Repair> {
    match v[0] { RepairMerge::Repair(r) => Some(r), RepairMerge::Merge(x, _) => Some(x), RepairMerge::Terminator => None }
}
pub open spec fn ends_in_delete(v: Seq<RepairMerge>) -> bool { last_rep(v) == Some(Repair::Delete) }
pub proof fn lemma_lead_shifts_take(v: Seq<RepairMerge>, n: int)
    requires 0 <= n <= v.len(), forall|i: int| 0 <= i < n ==> is_shift_rm(#[trigger] v[i]), n == v.len() || !is_shift_rm(v[n])
    ensures lead_shifts(v) == n
    decreases n
{
    if n > 0 {
        assert forall|i: int| 0 <= i < n - 1 implies is_shift_rm(#[trigger] v.drop_first()[i]) by { assert(v.drop_first()[i] == v[i + 1]); }
        if n < v.len() { assert(v.drop_first()[n - 1] == v[n]); }
        lemma_lead_shifts_take(v.drop_first(), n - 1);
    }
}
fn num_shifts(c: &Cactus) -> (n: usize)
    ensures n == lead_shifts(c.svals()), // OBL: C05.node_merge.trailing_shift_count
{
    //@probe
    //@body file=lrpar/src/lib/cpctplus.rs fn=eq block=`^\s*let num_shifts = \|c: &Cactus<RepairMerge<StorageT>>\| \{` through=brace
    //@rule n=1 `^\s*let num_shifts = \|c: &Cactus<RepairMerge<\$T>>\| \{\n` => ``
    //@rule n=1 `^(\s*)\};\s*$` => ``
    //@rule n=1 `let mut n = 0;` => `let mut n: usize = 0;`
    //@rule n=1 `^(\s*)for r in c\.vals\(\) \{$` =>>
            let vals_ = c.vals_vec();
            let mut vi_: usize = 0;
            while vi_ < vals_.len()
                invariant_except_break vi_ <= vals_@.len(), n == vi_, vals_@ == c.svals(), forall|i: int| 0 <= i < vi_ ==> is_shift_rm(#[trigger] vals_@[i]),
                ensures vals_@ == c.svals(), n <= vals_@.len(), forall|i: int| 0 <= i < n ==> is_shift_rm(#[trigger] vals_@[i]), n == vals_@.len() || !is_shift_rm(vals_@[n as int]),
                decreases vals_@.len() - vi_,
            {
                //@probe
                let r = &vals_[vi_];
                vi_ = vi_ + 1;
    //@end
    //@rule n=1 `^(\s*)n\s*$` => `\1proof { lemma_lead_shifts_take(c.svals(), n as int); }\n\1n`
    //@endbody
}
impl PathFNode {
    fn last_repair(&self) -> (r: Option<Repair>)
        requires self.repairs.svals().len() > 0,
        ensures r == last_rep(self.repairs.svals()),
    {
        //@probe
        //@body file=lrpar/src/lib/cpctplus.rs fn=last_repair
        //@rule n=1 `match \*self\.repairs\.val\(\)\.unwrap\(\) \{` => `match *self.repairs.first() {`
        //@endbody
    }
    //@ctx eq: both nodes carry a repair list (at least the terminator)
    fn eq(&self, other: &PathFNode) -> (r: bool)
        requires self.repairs.svals().len() > 0, other.repairs.svals().len() > 0,
        ensures
            r ==> self.laidx == other.laidx && self.pstack.s() == other.pstack.s(), // OBL: C05.node_merge.only_nodes_in_the_same_parse_configuration_are_merged C07.node_merge.only_nodes_in_the_same_parse_configuration_are_merged
            r == (self.laidx == other.laidx && self.pstack.s() == other.pstack.s()
                && ends_in_delete(self.repairs.svals()) == ends_in_delete(other.repairs.svals())
                && lead_shifts(self.repairs.svals()) == lead_shifts(other.repairs.svals())), // OBL: C05.node_merge.compatible_iff_same_configuration_same_trailing_shifts_same_delete_ending
    {
        //@probe
        //@body file=lrpar/src/lib/cpctplus.rs fn=eq
        //@rule n=1 `self\.pstack != other\.pstack` => `self.pstack.ne(&other.pstack)`
        //@cut n=1 `let num_shifts = \|c: &Cactus<RepairMerge<\$T>>\| \{` =>>
        //@end
        //@rule n=1 `^\s*;\s*\n(\s*)let self_shifts` => `\1let self_shifts`
        //@endbody
    }
}
//@undecided that the sum of these per-move costs is what rank/simplify compare (whole-search invariant of dijkstra) is not decided
//@use prelude/tail.rs
