//@unit c03_files__pins props=C03 widths=u32
//@use prelude/head.rs
// the source files the property is anchored in, pinned whole (test modules, comments and layout apart): a change to anything in
// them that is neither under contract nor pinned by name still makes this unit undecided, which sends the check to the
// property's bounded sweep of the real code
//@pinfile file=lrtable/src/lib/statetable.rs sha=d87829631c7b15fa
//@pinfile file=cfgrammar/src/lib/yacc/grammar.rs sha=b2daa9fc80630f0d
//@pinfile file=cfgrammar/src/lib/yacc/parser.rs sha=6ef477d7cbbde140
//@pinfile file=lrpar/src/lib/ctbuilder.rs sha=63360841de4f2b64
//@use prelude/tail.rs
