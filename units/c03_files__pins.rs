//@unit c03_files__pins props=C03 widths=u32
//@use prelude/head.rs
// the source files the property is anchored in, pinned whole (test modules, comments and layout apart): a change to anything in
// them that is neither under contract nor pinned by name still makes this unit undecided, which sends the check to the
// property's bounded sweep of the real code
//@pinfile file=lrtable/src/lib/statetable.rs sha=d87829631c7b15fa
//@pinfile file=cfgrammar/src/lib/yacc/grammar.rs sha=3ccc24d5c8f4f7f7
//@pinfile file=cfgrammar/src/lib/yacc/parser.rs sha=7924a7910fafba2c
//@pinfile file=lrpar/src/lib/ctbuilder.rs sha=63360841de4f2b64
//@use prelude/tail.rs
