//@unit c05_traverse props=C05,C06,C07 widths=u32
//@use prelude/head.rs
//@use prelude/lrpar.rs

// lrpar/src/lib/cpctplus.rs: how the search merges nodes and gets the repair sequences back out of a merged node:
// PathFNode::eq / last_repair (which nodes count as one configuration), the merge closure of `recover` (folding one node's
// history into another's) and traverse (nested in collect_repairs), which unfolds the merged repair histories of a
// search node into repair sequences; collect_repairs around it; the neighbours and success closures of `recover`; and
// the part of `recover` after the search (collect, rank, simplify, apply the first sequence).  A history is a cactus of RepairMerge values (most recent first); a Merge carries
// the histories of the nodes that were merged into this one.  Decides for C05 / C06: the sequences returned are exactly
// the root-to-node readings of the history -- at a merge, either the node's own history extended by its repair, or the
// whole reading of one of the histories merged into it -- nothing lost and nothing invented.
#[derive(Clone, Copy, PartialEq, Eq)] pub enum Repair { InsertTerm(TIdx<$T>), Delete, Shift }
// specification view of a history: the values from this node towards the root
pub enum Hist { Nil, Cons(Node, Box<Hist>) }
pub enum Node { Repair(Repair), Merge(Repair, Box<Alts>), Terminator }
pub enum Alts { Nil, Cons(Box<Hist>, Box<Alts>) }

// the history is one the search builds: it ends in a Terminator, below which nothing is looked at
pub open spec fn wf(h: Hist) -> bool decreases h {
    match h {
        Hist::Nil => false,
        Hist::Cons(Node::Terminator, _) => true,
        Hist::Cons(Node::Repair(_), p) => wf(*p),
        Hist::Cons(Node::Merge(_, a), p) => wf(*p) && wf_alts(*a),
    }
}
pub open spec fn wf_alts(a: Alts) -> bool decreases a {
    match a { Alts::Nil => true, Alts::Cons(h, rest) => wf(*h) && wf_alts(*rest) }
}
pub open spec fn at_terminator(h: Hist) -> bool { h matches Hist::Cons(Node::Terminator, _) }
// s is a reading of h: the repairs from the root to this node, choosing at a merge either to go on in this history or to
// switch to one of the alternatives
pub open spec fn reading(h: Hist, s: Seq<Repair>) -> bool decreases h, 0nat {
    match h {
        Hist::Nil => false,
        Hist::Cons(Node::Terminator, _) => false,
        Hist::Cons(Node::Repair(r), p) => own(*p, r, s),
        Hist::Cons(Node::Merge(r, a), p) => own(*p, r, s) || reading_alts(*a, s),
    }
}
pub open spec fn own(p: Hist, r: Repair, s: Seq<Repair>) -> bool decreases p, 1nat {
    s.len() > 0 && s.last() == r && (if at_terminator(p) { s.len() == 1 } else { reading(p, s.drop_last()) })
}
pub open spec fn reading_alts(a: Alts, s: Seq<Repair>) -> bool decreases a, 0nat {
    match a { Alts::Nil => false, Alts::Cons(h, rest) => reading(*h, s) || reading_alts(*rest, s) }
}

// ---- exec stand-ins: the cactus types ----
#[verifier::external_body] #[derive(Clone, Copy)] pub struct Instant { _x: usize }
impl Instant { #[verifier::external_body] pub fn now() -> (r: Instant) { unimplemented!() } #[verifier::external_body] pub fn ge(&self, o: Instant) -> (r: bool) { unimplemented!() } }
// dialect rule 5: `for x in v` (by value) hands the elements out in order
#[verifier::external_body] pub fn moved_out(v: &Vec<Vec<Repair>>, i: usize) -> (r: Vec<Repair>) requires i < v.len() ensures r@ == v@[i as int]@ { unimplemented!() }
#[verifier::external_body] pub struct AltCactus { _x: usize }      // Cactus<Cactus<RepairMerge>>
pub enum RepairMerge { Repair(Repair), Merge(Repair, AltCactus), Terminator }
#[verifier::external_body] pub struct Cactus { _x: usize }         // Cactus<RepairMerge>
impl AltCactus {
    pub uninterp spec fn v(&self) -> Alts;
    // dialect rule 5: `for c in vc.vals()` as the list of the cactus's values
    #[verifier::external_body]
    pub fn vals_vec(&self) -> (r: Vec<Cactus>) ensures list_is(r@, self.v()) { unimplemented!() }
}
pub open spec fn list_is(cs: Seq<Cactus>, a: Alts) -> bool decreases a {
    match a { Alts::Nil => cs.len() == 0, Alts::Cons(h, rest) => cs.len() > 0 && cs[0].v() == *h && list_is(cs.drop_first(), *rest) }
}
pub open spec fn node_v(x: &RepairMerge) -> Node {
    match x { RepairMerge::Repair(r) => Node::Repair(*r), RepairMerge::Merge(r, a) => Node::Merge(*r, Box::new(a.v())), RepairMerge::Terminator => Node::Terminator }
}
impl AltCactus {
    #[verifier::external_body] pub fn new() -> (r: AltCactus) ensures r.v() == Alts::Nil { unimplemented!() }
    // Cactus::child: a new node above this one (vals() yields it first)
    #[verifier::external_body] pub fn child(&self, c: Cactus) -> (r: AltCactus) ensures r.v() == Alts::Cons(Box::new(c.v()), Box::new(self.v())) { unimplemented!() }
}
impl Cactus {
    pub uninterp spec fn v(&self) -> Hist;
    #[verifier::external_body] pub fn child(&self, x: RepairMerge) -> (r: Cactus) ensures r.v() == Hist::Cons(node_v(&x), Box::new(self.v())) { unimplemented!() }
    // Cactus == Cactus (cactus crate, with the derived PartialEq of RepairMerge): equal only if the histories are the same
    #[verifier::external_body] pub fn eq_(&self, o: &Cactus) -> (r: bool) ensures r ==> self.v() == o.v() { unimplemented!() }
    // `rm.val().unwrap()`: panics on an empty cactus
    #[verifier::external_body]
    pub fn val_unwrap(&self) -> (r: &RepairMerge)
        requires self.v() is Cons, // OBLG: C05.traverse.history_is_never_empty
        ensures node_v(r) == self.v()->Cons_0
    { unimplemented!() }
    // `rm.parent().unwrap()`
    #[verifier::external_body]
    pub fn parent_unwrap(&self) -> (r: Cactus)
        requires self.v() is Cons, // OBLG: C05.traverse.history_is_never_empty
        ensures r.v() == *self.v()->Cons_1
    { unimplemented!() }
}
pub open spec fn has(out: Seq<Vec<Repair>>, s: Seq<Repair>) -> bool { exists|k: int| 0 <= k < out.len() && (#[trigger] out[k])@ == s }

// a reading of one of the alternatives in the list is a reading of the alternatives
pub proof fn lemma_alts(cs: Seq<Cactus>, a: Alts, k: int, s: Seq<Repair>)
    requires list_is(cs, a), 0 <= k < cs.len()
    ensures reading(cs[k].v(), s) ==> reading_alts(a, s)
    decreases a
{
    match a {
        Alts::Nil => {}
        Alts::Cons(h, rest) => { if k > 0 { lemma_alts(cs.drop_first(), *rest, k - 1, s); assert(cs.drop_first()[k - 1] == cs[k]); } }
    }
}
pub proof fn lemma_alts_rev(cs: Seq<Cactus>, a: Alts, s: Seq<Repair>)
    requires list_is(cs, a), reading_alts(a, s)
    ensures exists|k: int| 0 <= k < cs.len() && reading((#[trigger] cs[k]).v(), s)
    decreases a
{
    match a {
        Alts::Nil => {}
        Alts::Cons(h, rest) => {
            if reading(*h, s) { assert(reading(cs[0].v(), s)); }
            else { lemma_alts_rev(cs.drop_first(), *rest, s); let k = choose|k: int| 0 <= k < cs.drop_first().len() && reading((#[trigger] cs.drop_first()[k]).v(), s); assert(cs.drop_first()[k] == cs[k + 1]); assert(reading(cs[k + 1].v(), s)); }
        }
    }
}
pub proof fn lemma_wf_alts(cs: Seq<Cactus>, a: Alts, k: int)
    requires list_is(cs, a), wf_alts(a), 0 <= k < cs.len()
    ensures wf(cs[k].v())
    decreases a
{
    match a {
        Alts::Nil => {}
        Alts::Cons(h, rest) => { if k > 0 { lemma_wf_alts(cs.drop_first(), *rest, k - 1); assert(cs.drop_first()[k - 1] == cs[k]); } }
    }
}

// a history that has gone beyond the Terminator has a reading
pub proof fn lemma_nonempty(h: Hist)
    requires wf(h), !at_terminator(h)
    ensures exists|s: Seq<Repair>| reading(h, s)
    decreases h, 0nat
{
    match h {
        Hist::Cons(Node::Repair(r), p) => { lemma_own(*p, r); let s = choose|s: Seq<Repair>| own(*p, r, s); assert(reading(h, s)); }
        Hist::Cons(Node::Merge(r, a), p) => { lemma_own(*p, r); let s = choose|s: Seq<Repair>| own(*p, r, s); assert(reading(h, s)); }
        _ => {}
    }
}
pub proof fn lemma_own(p: Hist, r: Repair)
    requires wf(p)
    ensures exists|s: Seq<Repair>| own(p, r, s)
    decreases p, 1nat
{
    if at_terminator(p) { assert(own(p, r, seq![r])); }
    else { lemma_nonempty(p); let s0 = choose|s0: Seq<Repair>| reading(p, s0); let s = s0.push(r); assert(s.drop_last() =~= s0); assert(own(p, r, s)); }
}

//@ctx traverse: the history is one the search builds (it ends in a Terminator: the start node's history is `Cactus::new().child(RepairMerge::Terminator)`, moves and merges only add above it)
//@undecided traverse: termination (the recursion follows the history towards its root and into the merged alternatives)
#[verifier::exec_allows_no_decreases_clause]
fn traverse(finish_by: Instant, rm: &Cactus) -> (r: Option<Vec<Vec<Repair>>>)
    requires wf(rm.v()),
    ensures r matches Some(out) ==> forall|s: Seq<Repair>| has(out@, s) <==> reading(rm.v(), s), // OBL: C05.traverse.sequences_returned_are_exactly_the_readings_of_the_history C06.traverse.sequences_returned_are_exactly_the_readings_of_the_history
{
    //@probe
    let ghost h_ = rm.v();
    let ghost p_ = *h_->Cons_1;
    //@body file=lrpar/src/lib/cpctplus.rs fn=traverse
    //@atend n=1 `RepairMerge::Repair\(r\) => \{` =>>
        proof { assert forall|s: Seq<Repair>| has(out@, s) <==> reading(h_, s) by {} }
    //@end
    //@atend n=1 `RepairMerge::Merge\(r, ref vc\) => \{` =>>
        proof {
            assert forall|s: Seq<Repair>| has(out@, s) <==> reading(h_, s) by {
                if reading_alts(a_, s) { lemma_alts_rev(cs_@, a_, s); }
                if exists|k: int| 0 <= k < cs_@.len() && reading((#[trigger] cs_@[k]).v(), s) {
                    let k = choose|k: int| 0 <= k < cs_@.len() && reading((#[trigger] cs_@[k]).v(), s);
                    lemma_alts(cs_@, a_, k, s);
                }
            }
        }
    //@end
    //@atend n=2 `if parents\.is_empty\(\) \{` =>>
        proof {
            // no reading of the parent history: it is the Terminator
            if !at_terminator(p_) { lemma_nonempty(p_); let s0 = choose|s0: Seq<Repair>| reading(p_, s0); assert(has(parents@, s0)); }
            assert forall|s: Seq<Repair>| has(out@, s) <==> own(p_, r, s) by {
                if has(out@, s) { assert(out@[0]@ =~= seq![r]); }
                if own(p_, r, s) { assert(s =~= seq![r]); assert(out@[0]@ == s); }
            }
        }
    //@end
    //@atend n=2 `\} else \{` =>>
        proof {
            assert(has(parents@, parents@[0]@));
            assert(!at_terminator(p_));
            assert forall|s: Seq<Repair>| has(out@, s) <==> own(p_, r, s) by {
                if has(out@, s) {
                    let k = choose|k: int| 0 <= k < out@.len() && (#[trigger] out@[k])@ == s;
                    assert(s.drop_last() =~= parents@[k]@);
                    assert(has(parents@, s.drop_last()));
                }
                if own(p_, r, s) {
                    assert(has(parents@, s.drop_last()));
                    let k = choose|k: int| 0 <= k < parents@.len() && (#[trigger] parents@[k])@ == s.drop_last();
                    assert(out@[k]@ =~= s);
                }
            }
        }
    //@end
    //@atend n=1 `^(\s*)for c in vc\.vals\(\) \{$` =>>
        proof {
            assert forall|s: Seq<Repair>| has(out@, s) <==> (own(p_, r, s) || exists|k: int| 0 <= k < ci_ + 1 && reading((#[trigger] cs_@[k]).v(), s)) by {
                if has(out@, s) {
                    let j = choose|j: int| 0 <= j < out@.len() && (#[trigger] out@[j])@ == s;
                    if j < o1_.len() { assert(o1_[j]@ == s); assert(has(o1_, s)); }
                    else { assert(sub_@[j - o1_.len()]@ == s); assert(has(sub_@, s)); assert(reading(cs_@[ci_ as int].v(), s)); }
                }
                if has(o1_, s) {
                    let j = choose|j: int| 0 <= j < o1_.len() && (#[trigger] o1_[j])@ == s;
                    assert(out@[j]@ == s);
                }
                if reading(cs_@[ci_ as int].v(), s) {
                    assert(has(sub_@, s));
                    let j = choose|j: int| 0 <= j < sub_@.len() && (#[trigger] sub_@[j])@ == s;
                    assert(out@[o1_.len() + j]@ == s);
                }
                if exists|k: int| 0 <= k < ci_ + 1 && reading((#[trigger] cs_@[k]).v(), s) {
                    let k = choose|k: int| 0 <= k < ci_ + 1 && reading((#[trigger] cs_@[k]).v(), s);
                    if k < ci_ { } else { assert(k == ci_); }
                }
            }
        }
    //@end
    //@rule n=1 `if Instant::now\(\) >= finish_by \{` => `if Instant::now().ge(finish_by) {`
    //@rule n=1 `let mut out = Vec::new\(\);` => `let mut out: Vec<Vec<Repair>> = Vec::new();`
    //@rule n=1 `match \*rm\.val\(\)\.unwrap\(\) \{` => `match rm.val_unwrap() {`
    //@rule n=1 `RepairMerge::Repair\(r\) => \{` => `RepairMerge::Repair(r_) => { let r = *r_;`
    //@rule n=1 `RepairMerge::Merge\(r, ref vc\) => \{` => `RepairMerge::Merge(r_, vc) => { let r = *r_;`
    //@rule n=2 `traverse\(finish_by, &rm\.parent\(\)\.unwrap\(\)\)\?` => `traverse(finish_by, &rm.parent_unwrap())?`
    //@rule n=2 `^(\s*)for mut pc in parents \{$` =>>
    for pi_ in 0..parents.len()
        invariant out@.len() == pi_, // OBL: C05.traverse.every_reading_of_the_parent_is_extended_by_this_repair
            forall|k: int| 0 <= k < pi_ ==> (#[trigger] out@[k])@ == parents@[k]@.push(r), // OBL: C05.traverse.every_reading_of_the_parent_is_extended_by_this_repair
    {
        //@probe
        let mut pc = moved_out(&parents, pi_);
    //@end
    //@rule n=1 `^(\s*)for c in vc\.vals\(\) \{$` =>>
    let cs_ = vc.vals_vec();
    let ghost a_ = vc.v();
    for ci_ in 0..cs_.len()
        invariant list_is(cs_@, a_), wf_alts(a_),
            forall|s: Seq<Repair>| has(out@, s) <==> (own(p_, r, s) || exists|k: int| 0 <= k < ci_ && reading((#[trigger] cs_@[k]).v(), s)), // OBL: C05.traverse.every_merged_history_contributes_its_own_readings
    {
        let c = &cs_[ci_];
        proof { lemma_wf_alts(cs_@, a_, ci_ as int); }
        let ghost o1_ = out@;
    //@end
    //@rule n=1 `^(\s*)for pc in traverse\(finish_by, c\)\? \{$` =>>
    let sub_ = traverse(finish_by, c)?;
    for qi_ in 0..sub_.len()
        invariant out@.len() == o1_.len() + qi_, // OBL: C05.traverse.every_reading_of_a_merged_history_is_kept
            forall|k: int| 0 <= k < o1_.len() ==> #[trigger] out@[k] == o1_[k],
            forall|j: int| o1_.len() <= j < out@.len() ==> (#[trigger] out@[j])@ == sub_@[j - o1_.len()]@, // OBL: C05.traverse.every_reading_of_a_merged_history_is_kept
    {
        //@probe
        let pc = moved_out(&sub_, qi_);
    //@end
    //@endbody
}

// ---- the merge closure handed to dijkstra by `recover`: fold node `new` into the compatible node `old` ----
#[verifier::external_body] pub struct PStack { _x: usize }
pub struct PathFNode { pub pstack: PStack, pub laidx: usize, pub repairs: Cactus, pub cf: u16 }
pub open spec fn last_of(h: Hist) -> Option<Repair> {
    match h { Hist::Cons(Node::Repair(r), _) => Some(r), Hist::Cons(Node::Merge(r, _), _) => Some(r), _ => None }
}

// ---- the cost and the position of a node are those of every repair sequence it stands for (lemmas over the
// contracts above and those of unit c06_moves; they are proved, but they are statements about the specification, not
// obligations on a function body) ----
pub uninterp spec fn tok_cost(t: TIdx<$T>) -> int;          // the user's token cost function
pub uninterp spec fn tok_at(la: int) -> TIdx<$T>;           // the token of the lexeme at input position la
// total cost of a sequence read from position la0, and the position it ends at
pub open spec fn rcost(s: Seq<Repair>, la0: int) -> int decreases s.len() {
    if s.len() == 0 { 0 } else {
        let pre = s.drop_last();
        rcost(pre, la0) + match s.last() { Repair::InsertTerm(t) => tok_cost(t), Repair::Delete => tok_cost(tok_at(rend(pre, la0))), Repair::Shift => 0 }
    }
}
pub open spec fn rend(s: Seq<Repair>, la0: int) -> int decreases s.len() {
    if s.len() == 0 { la0 } else { rend(s.drop_last(), la0) + match s.last() { Repair::InsertTerm(_) => 0int, _ => 1int } }
}
// node (history h, position la, cost c) of a search that started at position la0 with cost 0
pub open spec fn node_inv(h: Hist, la0: int, la: int, c: int) -> bool {
    (at_terminator(h) ==> la == la0 && c == 0) && forall|s: Seq<Repair>| #[trigger] reading(h, s) ==> rcost(s, la0) == c && rend(s, la0) == la
}
pub open spec fn ext(h: Hist, r: Repair) -> Hist { Hist::Cons(Node::Repair(r), Box::new(h)) }
// the start node
pub proof fn lemma_start(la0: int)
    ensures node_inv(Hist::Cons(Node::Terminator, Box::new(Hist::Nil)), la0, la0, 0)
{ }
// a move (unit c06_moves: the neighbour's history is the node's with the repair put in front, its cost the node's plus the
// repair's, its position the node's, plus one for a delete or a shift)
pub proof fn lemma_move(h: Hist, la0: int, la: int, c: int, r: Repair)
    requires node_inv(h, la0, la, c)
    ensures node_inv(ext(h, r), la0, la + (if r is InsertTerm { 0int } else { 1int }),
        c + (match r { Repair::InsertTerm(t) => tok_cost(t), Repair::Delete => tok_cost(tok_at(la)), Repair::Shift => 0int })) // OBL: C06.cost.a_moves_cost_and_position_are_those_of_every_sequence_it_extends
{
    let h2 = ext(h, r);
    assert forall|s: Seq<Repair>| #[trigger] reading(h2, s) implies
        rcost(s, la0) == c + (match r { Repair::InsertTerm(t) => tok_cost(t), Repair::Delete => tok_cost(tok_at(la)), Repair::Shift => 0int })
        && rend(s, la0) == la + (if r is InsertTerm { 0int } else { 1int }) by {
        assert(own(h, r, s));
        if at_terminator(h) { assert(s.drop_last().len() == 0); assert(rcost(s.drop_last(), la0) == 0 && rend(s.drop_last(), la0) == la0); }
        else { assert(reading(h, s.drop_last())); }
    }
}
// a merge (merge_nodes above: the readings of both nodes; dijkstra only merges nodes of one bucket, i.e. of equal cost,
// and PathFNode::eq only holds for nodes at the same position)
pub proof fn lemma_merge(h_old: Hist, h_new: Hist, h_fin: Hist, la0: int, la: int, c: int)
    requires node_inv(h_old, la0, la, c), node_inv(h_new, la0, la, c), !at_terminator(h_fin),
        forall|s: Seq<Repair>| reading(h_fin, s) <==> (reading(h_old, s) || reading(h_new, s)),
    ensures node_inv(h_fin, la0, la, c) // OBL: C06.cost.a_merged_node_still_costs_what_each_of_its_sequences_costs
{ }

//@ctx merge_nodes: both nodes are ones the search builds, and `old` is not the start node (dijkstra pops the start node before it asks for any neighbour, so an occupied entry is always a neighbour, which has at least one repair)
fn merge_nodes(oldn: &mut PathFNode, new: PathFNode)   // (`old` is a Verus keyword: the closure's parameter is renamed)
    requires wf(old(oldn).repairs.v()), !at_terminator(old(oldn).repairs.v()), wf(new.repairs.v()),
    ensures
        wf(final(oldn).repairs.v()) && !at_terminator(final(oldn).repairs.v()), // OBL: C05.merge.history_stays_well_formed
        forall|s: Seq<Repair>| reading(final(oldn).repairs.v(), s) <==> (reading(old(oldn).repairs.v(), s) || reading(new.repairs.v(), s)), // OBL: C05.merge.readings_of_the_merged_node_are_those_of_both_nodes C06.merge.readings_of_the_merged_node_are_those_of_both_nodes
        last_of(final(oldn).repairs.v()) == last_of(old(oldn).repairs.v()) && *final(oldn).repairs.v()->Cons_1 == *old(oldn).repairs.v()->Cons_1, // OBL: C05.merge.last_repair_and_earlier_history_of_the_kept_node_unchanged
        final(oldn).laidx == old(oldn).laidx && final(oldn).cf == old(oldn).cf && final(oldn).pstack == old(oldn).pstack, // OBL: C05.merge.configuration_and_cost_of_the_kept_node_unchanged
{
    //@probe
    //@body file=lrpar/src/lib/cpctplus.rs fn=recover block=`^\s*if old\.repairs == new\.repairs \{` end=`^\s*old\.repairs = old\.repairs\.parent\(\)\.unwrap\(\)\.child\(merge\);`
    //@rule n=* `\bold\.repairs` => `oldn.repairs`
    //@rule n=1 `if oldn\.repairs == new\.repairs \{` => `if oldn.repairs.eq_(&new.repairs) {`
    //@rule n=1 `match \*oldn\.repairs\.val\(\)\.unwrap\(\) \{` => `match oldn.repairs.val_unwrap() {`
    //@rule n=1 `RepairMerge::Repair\(r\) => \{` => `RepairMerge::Repair(r_) => { let r = *r_;`
    //@rule n=1 `RepairMerge::Merge\(r, ref v\) => RepairMerge::Merge\(r, ` => `RepairMerge::Merge(r_, v) => RepairMerge::Merge(*r_, `
    //@rule n=* `Cactus::new\(\)\.child\(new\.repairs\)` => `AltCactus::new().child(new.repairs)`
    //@rule n=1 `oldn\.repairs = oldn\.repairs\.parent\(\)\.unwrap\(\)\.child\(merge\);` => `oldn.repairs = oldn.repairs.parent_unwrap().child(merge);`
    //@endbody
    proof { reveal_with_fuel(reading_alts, 3); reveal_with_fuel(wf_alts, 3); reveal_with_fuel(reading, 2); reveal_with_fuel(wf, 2);
        let h0 = old(oldn).repairs.v(); let h1 = oldn.repairs.v();
        assert(h0 is Cons);
        assert(h1 is Cons);
        assert(h1->Cons_0 is Merge);
        assert(wf(*h1->Cons_1));
        assert(wf_alts(*h1->Cons_0->Merge_1));
        assert(wf(h1));
    }
}

// ---- which nodes the search treats as the same configuration: PathFNode::eq, last_repair ----
impl PStack {
    pub uninterp spec fn v(&self) -> Seq<StIdx<$T>>;
    // Cactus<StIdx> != Cactus<StIdx> (cactus crate): compares the stacks value by value
    #[verifier::external_body] pub fn ne_(&self, o: &PStack) -> (r: bool) ensures r == (self.v() != o.v()) { unimplemented!() }
}
pub open spec fn nodes(h: Hist) -> Seq<Node> decreases h { match h { Hist::Nil => Seq::empty(), Hist::Cons(n, p) => seq![n] + nodes(*p) } }
impl Cactus {
    // dialect rule 5: `for r in c.vals()` over the list of the history's values, most recent first
    #[verifier::external_body] pub fn vals_vec(&self) -> (r: &Vec<RepairMerge>)
        ensures r@.len() == nodes(self.v()).len(), forall|i: int| 0 <= i < r@.len() ==> node_v(#[trigger] &r@[i]) == nodes(self.v())[i]
    { unimplemented!() }
}
pub open spec fn is_shift_node(n: Node) -> bool { n matches Node::Repair(Repair::Shift) || n matches Node::Merge(Repair::Shift, _) }
// the number of shifts a history ends with
pub open spec fn lead(ns: Seq<Node>, i: int) -> int decreases ns.len() - i {
    if 0 <= i < ns.len() && is_shift_node(ns[i]) { 1 + lead(ns, i + 1) } else { 0 }
}
pub open spec fn ends_in_delete(h: Hist) -> bool { last_of(h) == Some(Repair::Delete) }
// the search treats two nodes as one configuration when they have the same stack and position, agree on whether the last
// repair was a delete (no insert may follow a delete) and end in the same number of shifts (the success criterion)
pub open spec fn compatible(a: &PathFNode, b: &PathFNode) -> bool {
    a.laidx == b.laidx && a.pstack.v() == b.pstack.v() && ends_in_delete(a.repairs.v()) == ends_in_delete(b.repairs.v())
        && lead(nodes(a.repairs.v()), 0) == lead(nodes(b.repairs.v()), 0)
}
//@ctx num_shifts: a history is shorter than i32::MAX (the counter `n` is an i32 by default; a history has at most one value per repair made)
fn num_shifts(c: &Cactus) -> (n: i32)
    requires nodes(c.v()).len() < i32::MAX,
    ensures n == lead(nodes(c.v()), 0), // OBL: C05.eq.trailing_shifts_counted_from_the_most_recent_repair
{
    //@probe
    //@body file=lrpar/src/lib/cpctplus.rs fn=eq block=`let num_shifts = \|c: &Cactus<RepairMerge<StorageT>>\| \{` through=brace
    //@rule n=1 `^\s*let num_shifts = \|c: &Cactus<RepairMerge<\$T>>\| \{\n` => ``
    //@rule n=1 `^(\s*)\};\s*$` => ``
    //@rule n=1 `let mut n = 0;` => `let mut n: i32 = 0;`
    //@rule n=1 `^(\s*)for r in c\.vals\(\) \{$` =>>
    let vs_ = c.vals_vec();
    let ghost ns_ = nodes(c.v());
    let mut ri_: usize = 0;
    while ri_ < vs_.len()
        invariant_except_break ri_ <= vs_@.len(), vs_@.len() == ns_.len(), ns_.len() < i32::MAX, n == ri_,
            forall|i: int| 0 <= i < vs_@.len() ==> node_v(#[trigger] &vs_@[i]) == ns_[i],
            lead(ns_, 0) == n + lead(ns_, ri_ as int), // OBL: C05.eq.trailing_shifts_counted_from_the_most_recent_repair.scan
        ensures n == lead(ns_, 0),
        decreases vs_@.len() - ri_,
    {
        //@probe
        let r = &vs_[ri_];
        ri_ += 1;
    //@end
    //@rule n=1 `match \*r \{` => `match r {`
    //@endbody
}
fn last_repair(this: &PathFNode) -> (r: Option<Repair>)
    requires this.repairs.v() is Cons,
    ensures r == last_of(this.repairs.v()), // OBL: C05.eq.last_repair_is_the_most_recent_one
{
    //@probe
    //@body file=lrpar/src/lib/cpctplus.rs fn=last_repair
    //@rule n=1 `match \*self\.repairs\.val\(\)\.unwrap\(\) \{` => `match this.repairs.val_unwrap() {`
    //@rule n=1 `RepairMerge::Repair\(r\) => Some\(r\),` => `RepairMerge::Repair(r) => Some(*r),`
    //@rule n=1 `RepairMerge::Merge\(x, _\) => Some\(x\),` => `RepairMerge::Merge(x, _) => Some(*x),`
    //@endbody
}
//@ctx eq: both nodes have a history (every node's history ends in the Terminator value) shorter than i32::MAX
fn eq(this: &PathFNode, other: &PathFNode) -> (r: bool)
    requires this.repairs.v() is Cons, other.repairs.v() is Cons, nodes(this.repairs.v()).len() < i32::MAX, nodes(other.repairs.v()).len() < i32::MAX,
    ensures r == compatible(this, other), // OBL: C05.eq.nodes_are_merged_only_when_their_configurations_are_compatible C06.eq.nodes_are_merged_only_when_their_configurations_are_compatible
{
    //@probe
    //@body file=lrpar/src/lib/cpctplus.rs fn=eq
    //@cut n=1 `let num_shifts = \|c: &Cactus<RepairMerge<\$T>>\| \{` =>>
        // (the closure num_shifts is the function of that name above)
    //@end
    //@rule n=* `\bself\.` => `this.`
    //@rule n=1 `this\.pstack != other\.pstack` => `this.pstack.ne_(&other.pstack)`
    //@rule n=1 `match \(this\.last_repair\(\), other\.last_repair\(\)\) \{` => `match (last_repair(this), last_repair(other)) {`
    //@endbody
}

// ---- collect_repairs: every candidate node's history unfolded and turned into reportable repairs ----
pub struct CPCTPlus { pub _p: usize }
impl CPCTPlus {
    // repair_to_parse_repair is under contract in unit c06_cpct (there: spr is to_parse_repairs(..).0, under the same precondition)
    pub uninterp spec fn spr(&self, from: Seq<Repair>, laidx: int) -> Seq<ParseRepair>;
    #[verifier::external_body]
    pub fn repair_to_parse_repair(&self, laidx: usize, from: &Vec<Repair>) -> (r: Vec<ParseRepair>)
        requires laidx + from@.len() < usize::MAX, // OBLG: C05.collect.positions_named_by_a_repair_do_not_overflow
        ensures r@ == self.spr(from@, laidx as int)
    { unimplemented!() }
}
// out is, sequence by sequence, what repair_to_parse_repair makes of a list holding exactly the readings of h
pub open spec fn is_image(this: &CPCTPlus, out: Seq<Vec<ParseRepair>>, h: Hist, la: int) -> bool {
    exists|t: Seq<Vec<Repair>>| image_of(this, out, t, h, la)
}
pub open spec fn image_of(this: &CPCTPlus, out: Seq<Vec<ParseRepair>>, t: Seq<Vec<Repair>>, h: Hist, la: int) -> bool {
    (forall|s: Seq<Repair>| has(t, s) <==> reading(h, s)) && out.len() == t.len() && (forall|j: int| 0 <= j < t.len() ==> (#[trigger] out[j])@ == this.spr(t[j]@, la))
}
//@ctx collect_repairs: every candidate is a node the search built (its history ends in the Terminator); in_laidx plus the length of a repair sequence does not overflow usize
fn collect_repairs(this: &CPCTPlus, finish_by: Instant, in_laidx: usize, cnds: Vec<PathFNode>) -> (r: Option<Vec<Vec<Vec<ParseRepair>>>>)
    requires forall|k: int| 0 <= k < cnds@.len() ==> wf((#[trigger] cnds@[k]).repairs.v()),
        forall|k: int, s: Seq<Repair>| 0 <= k < cnds@.len() && #[trigger] reading(cnds@[k].repairs.v(), s) ==> in_laidx + s.len() < usize::MAX,
    ensures r matches Some(out) ==> out@.len() == cnds@.len() && forall|k: int| 0 <= k < cnds@.len() ==> is_image(this, (#[trigger] out@[k])@, cnds@[k].repairs.v(), in_laidx as int), // OBL: C05.collect.each_candidate_reports_exactly_the_readings_of_its_history_from_the_error_position C06.collect.each_candidate_reports_exactly_the_readings_of_its_history_from_the_error_position
{
    //@probe
    //@body file=lrpar/src/lib/cpctplus.rs fn=collect_repairs block=`let mut all_rprs = Vec::with_capacity\(cnds\.len\(\)\);` end=`^\s*Some\(all_rprs\)$`
    //@rule n=1 `let mut all_rprs = Vec::with_capacity\(cnds\.len\(\)\);` => `let mut all_rprs: Vec<Vec<Vec<ParseRepair>>> = Vec::with_capacity(cnds.len());`
    //@rule n=1 `^(\s*)for cnd in cnds \{$` =>>
    for ci_ in 0..cnds.len()
        invariant all_rprs@.len() == ci_,
            forall|k: int| 0 <= k < cnds@.len() ==> wf((#[trigger] cnds@[k]).repairs.v()),
            forall|k: int, s: Seq<Repair>| 0 <= k < cnds@.len() && #[trigger] reading(cnds@[k].repairs.v(), s) ==> in_laidx + s.len() < usize::MAX,
            forall|k: int| 0 <= k < ci_ ==> is_image(this, (#[trigger] all_rprs@[k])@, cnds@[k].repairs.v(), in_laidx as int),
    {
        //@probe
        let cnd = &cnds[ci_];
    //@end
    // dialect rule 5: `v.into_iter().map(|x| f(&x)).collect::<Vec<_>>()` as a loop pushing f of every element, in order
    //@rule n=1 `all_rprs\.push\(\s*traverse\(finish_by, &cnd\.repairs\)\?\s*\.into_iter\(\)\s*\.map\(\|x\| self\.repair_to_parse_repair\(([^,()]+), &x\)\)\s*\.collect::<Vec<_>>\(\),\s*\);` =>>
    let tr_ = traverse(finish_by, &cnd.repairs)?;
    let mut mapped_: Vec<Vec<ParseRepair>> = Vec::new();
    for xi_ in 0..tr_.len()
        invariant mapped_@.len() == xi_, 0 <= ci_ < cnds@.len(), cnd == &cnds@[ci_ as int],
            forall|s: Seq<Repair>| has(tr_@, s) <==> reading(cnd.repairs.v(), s),
            forall|k: int, s: Seq<Repair>| 0 <= k < cnds@.len() && #[trigger] reading(cnds@[k].repairs.v(), s) ==> in_laidx + s.len() < usize::MAX,
            forall|j: int| 0 <= j < xi_ ==> (#[trigger] mapped_@[j])@ == this.spr(tr_@[j]@, in_laidx as int), // OBL: C05.collect.every_sequence_is_converted_from_the_error_position
    {
        //@probe
        let x = moved_out(&tr_, xi_);
        proof { assert(has(tr_@, tr_@[xi_ as int]@)); }
        mapped_.push(this.repair_to_parse_repair(\1, &x));
    }
    proof { assert(image_of(this, mapped_@, tr_@, cnd.repairs.v(), in_laidx as int)); }
    all_rprs.push(mapped_);
    //@end
    //@endbody
}

// ---- recover, after the search: collect, rank, simplify, apply the first sequence ----
pub const TRY_PARSE_AT_MOST: usize = 250;
//@expect file=lrpar/src/lib/cpctplus.rs re=`const TRY_PARSE_AT_MOST: usize = 250;`
#[verifier::external_body] pub struct Parser { _x: usize }
#[verifier::external_body] pub struct AStack { _x: usize }     // Vec<AStackType<..>>
pub uninterp spec fn ranked(parser: &Parser, in_laidx: int, st: Seq<StIdx<$T>>, cnds: Seq<Vec<Vec<ParseRepair>>>) -> Seq<Vec<ParseRepair>>;
// rank_cnds is under contract in unit c06_rank (there: `ranked` is reported(.., best(..)), under the same preconditions)
#[verifier::external_body]
pub fn rank_cnds(parser: &Parser, finish_by: Instant, in_laidx: usize, in_pstack: &Vec<StIdx<$T>>, in_cnds: Vec<Vec<Vec<ParseRepair>>>) -> (r: Vec<Vec<ParseRepair>>)
    requires in_laidx + TRY_PARSE_AT_MOST <= usize::MAX,
        forall|k: int| 0 <= k < in_cnds@.len() ==> (#[trigger] in_cnds@[k])@.len() > 0, // OBLG: C06.recover.no_candidate_without_a_repair_sequence_is_ranked
    ensures r@ == ranked(parser, in_laidx as int, in_pstack@, in_cnds@)
{ unimplemented!() }
pub uninterp spec fn simplified(parser: &Parser, a: Seq<Vec<ParseRepair>>, b: Seq<Vec<ParseRepair>>) -> bool;
// simplify_repairs is under contract in unit c06_cpct (there: `simplified` is the conjunction of its postconditions, the last of which is used here)
#[verifier::external_body]
pub fn simplify_repairs(parser: &Parser, all_rprs: &mut Vec<Vec<ParseRepair>>)
    ensures simplified(parser, old(all_rprs)@, final(all_rprs)@), old(all_rprs)@.len() > 0 ==> final(all_rprs)@.len() > 0
{ unimplemented!() }
pub uninterp spec fn applied_la(parser: &Parser, laidx: int, st: Seq<StIdx<$T>>, reps: Seq<ParseRepair>) -> int;
pub uninterp spec fn applied_st(parser: &Parser, laidx: int, st: Seq<StIdx<$T>>, reps: Seq<ParseRepair>) -> Seq<StIdx<$T>>;
// apply_repairs is under contract in unit c05_apply; `&mut Some(astack)` / `&mut Some(spans)`: the real value and span stacks are handed over
#[verifier::external_body]
pub fn apply_repairs_building(parser: &Parser, laidx: usize, pstack: &mut Vec<StIdx<$T>>, astack: &mut AStack, spans: &mut Vec<Span>, repairs: &Vec<ParseRepair>) -> (r: usize)
    requires laidx + repairs@.len() < usize::MAX, // OBLG: C05.recover.positions_of_the_applied_sequence_do_not_overflow
    ensures r == applied_la(parser, laidx as int, old(pstack)@, repairs@), final(pstack)@ == applied_st(parser, laidx as int, old(pstack)@, repairs@)
{ unimplemented!() }
impl CPCTPlus {
    // the method form of collect_repairs above
    fn collect_repairs(&self, finish_by: Instant, in_laidx: usize, cnds: Vec<PathFNode>) -> (r: Option<Vec<Vec<Vec<ParseRepair>>>>)
        requires forall|k: int| 0 <= k < cnds@.len() ==> wf((#[trigger] cnds@[k]).repairs.v()),
            forall|k: int, s: Seq<Repair>| 0 <= k < cnds@.len() && #[trigger] reading(cnds@[k].repairs.v(), s) ==> in_laidx + s.len() < usize::MAX,
        ensures r matches Some(out) ==> out@.len() == cnds@.len() && forall|k: int| 0 <= k < cnds@.len() ==> is_image(self, (#[trigger] out@[k])@, cnds@[k].repairs.v(), in_laidx as int),
    { collect_repairs(self, finish_by, in_laidx, cnds) }
}
//@ctx recover_after_search: the candidates are success nodes the search built and none is the start node (recovery starts at an Error action, so the start node is not a success node); in_laidx + TRY_PARSE_AT_MOST and in_laidx + the length of any repair sequence do not overflow usize
fn recover_after_search(this: &CPCTPlus, finish_by: Instant, parser: &Parser, in_laidx: usize, in_pstack: &mut Vec<StIdx<$T>>, astack: &mut AStack, spans: &mut Vec<Span>, astar_cnds: Vec<PathFNode>) -> (r: (usize, Vec<Vec<ParseRepair>>))
    requires in_laidx + TRY_PARSE_AT_MOST <= usize::MAX,
        forall|k: int| 0 <= k < astar_cnds@.len() ==> wf((#[trigger] astar_cnds@[k]).repairs.v()) && !at_terminator(astar_cnds@[k].repairs.v()),
        forall|k: int, s: Seq<Repair>| 0 <= k < astar_cnds@.len() && #[trigger] reading(astar_cnds@[k].repairs.v(), s) ==> in_laidx + s.len() < usize::MAX,
        forall|a: Seq<Vec<ParseRepair>>, b: Seq<Vec<ParseRepair>>, j: int| #[trigger] simplified(parser, a, b) && 0 <= j < b.len() ==> in_laidx + (#[trigger] b[j])@.len() < usize::MAX,
    ensures
        r.1@.len() == 0 ==> r.0 == in_laidx && final(in_pstack)@ == old(in_pstack)@ && *final(astack) == *old(astack) && final(spans)@ == old(spans)@, // OBL: C05.recover.nothing_is_applied_when_nothing_is_reported C07.recover.nothing_is_applied_when_nothing_is_reported
        r.1@.len() > 0 ==> r.0 == applied_la(parser, in_laidx as int, old(in_pstack)@, r.1@[0]@) && final(in_pstack)@ == applied_st(parser, in_laidx as int, old(in_pstack)@, r.1@[0]@), // OBL: C05.recover.the_first_reported_sequence_is_the_one_applied
        r.1@.len() > 0 ==> exists|full: Seq<Vec<Vec<ParseRepair>>>| full.len() == astar_cnds@.len()
            && (forall|k: int| 0 <= k < astar_cnds@.len() ==> is_image(this, (#[trigger] full[k])@, astar_cnds@[k].repairs.v(), in_laidx as int))
            && simplified(parser, ranked(parser, in_laidx as int, old(in_pstack)@, full), r.1@), // OBL: C06.recover.the_report_is_the_simplified_ranking_of_every_candidates_sequences
{
    //@probe
    //@body file=lrpar/src/lib/cpctplus.rs fn=recover block=`^\s*if astar_cnds\.is_empty\(\) \{` end=`^\s*\(laidx, rnk_rprs\)$`
    //@rule n=3 `return \(in_laidx, vec!\[\]\);` => `return (in_laidx, Vec::new());`
    //@rule n=1 `let Some\(full_rprs\) = self\.collect_repairs\(finish_by, in_laidx, astar_cnds\) else \{` => `let full_rprs = match this.collect_repairs(finish_by, in_laidx, astar_cnds) { Some(x_) => x_, None => {`
    //@rule n=1 `^(\s*)\};$` =>>
        } };
        proof {
            assert forall|k: int| 0 <= k < full_rprs@.len() implies (#[trigger] full_rprs@[k])@.len() > 0 by {
                let h = astar_cnds@[k].repairs.v();
                lemma_nonempty(h);
                let s0 = choose|s0: Seq<Repair>| reading(h, s0);
                let t = choose|t: Seq<Vec<Repair>>| image_of(this, full_rprs@[k]@, t, h, in_laidx as int);
                assert(has(t, s0));
            }
        }
        let ghost full_ = full_rprs@;
    //@end
    //@rule n=1 `rank_cnds\(parser, finish_by, in_laidx, in_pstack, full_rprs\)` => `rank_cnds(parser, finish_by, in_laidx, &*in_pstack, full_rprs)`
    //@rule n=1 `let laidx = apply_repairs\(\s*parser,\s*in_laidx,\s*in_pstack,\s*&mut Some\(astack\),\s*&mut Some\(spans\),\s*&rnk_rprs\[([^\]]+)\],\s*\);` => `let laidx = apply_repairs_building(parser, in_laidx, in_pstack, astack, spans, &rnk_rprs[\1]);`
    //@endbody
}

// ---- the other two closures `recover` hands to dijkstra: a node's neighbours, and whether a node is a success ----
pub enum Action { Shift(StIdx<$T>), Reduce(PIdx<$T>), Accept, Error }
impl Parser {
    pub uninterp spec fn s_action(&self, st: StIdx<$T>, t: TIdx<$T>) -> Action;
    pub uninterp spec fn s_next_tidx(&self, laidx: int) -> TIdx<$T>;
    // parser.stable.action(st, t)
    #[verifier::external_body] pub fn stable_action(&self, st: StIdx<$T>, t: TIdx<$T>) -> (r: Action) ensures r == self.s_action(st, t) { unimplemented!() }
    #[verifier::external_body] pub fn next_tidx(&self, laidx: usize) -> (r: TIdx<$T>) ensures r == self.s_next_tidx(laidx as int) { unimplemented!() }
}
impl PStack {
    pub uninterp spec fn nonempty(&self) -> bool;
    pub uninterp spec fn stop(&self) -> StIdx<$T>;
    // `*pstack.val().unwrap()`: the state on top of the (cactus) parse stack
    #[verifier::external_body] pub fn val_unwrap(&self) -> (r: StIdx<$T>)
        requires self.nonempty(), // OBLG: C07.success.a_nodes_parse_stack_is_never_empty
        ensures r == self.stop()
    { unimplemented!() }
}
pub open spec fn three_shifts(h: Hist) -> bool { nodes(h).len() >= 3 && is_shift_node(nodes(h)[0]) && is_shift_node(nodes(h)[1]) && is_shift_node(nodes(h)[2]) }
// ends_with_parse_at_least_shifts is under contract in unit c06_cpct (there over the same list of values, Cactus::vals())
#[verifier::external_body] pub fn ends_with_parse_at_least_shifts(repairs: &Cactus) -> (r: bool) ensures r == three_shifts(repairs.v()) { unimplemented!() }
impl CPCTPlus {
    pub uninterp spec fn ins(&self, n: &PathFNode) -> Seq<(u16, PathFNode)>;
    pub uninterp spec fn del(&self, n: &PathFNode) -> Seq<(u16, PathFNode)>;
    pub uninterp spec fn shf(&self, n: &PathFNode) -> Seq<(u16, PathFNode)>;
    // the three moves are under contract in unit c06_moves; each only adds neighbours
    #[verifier::external_body] pub fn insert(&self, n: &PathFNode, nbrs: &mut Vec<(u16, PathFNode)>) ensures final(nbrs)@ == old(nbrs)@ + self.ins(n) { unimplemented!() }
    #[verifier::external_body] pub fn delete(&self, n: &PathFNode, nbrs: &mut Vec<(u16, PathFNode)>) ensures final(nbrs)@ == old(nbrs)@ + self.del(n) { unimplemented!() }
    #[verifier::external_body] pub fn shift(&self, n: &PathFNode, nbrs: &mut Vec<(u16, PathFNode)>) ensures final(nbrs)@ == old(nbrs)@ + self.shf(n) { unimplemented!() }
}
pub open spec fn moves_of(this: &CPCTPlus, explore_all: bool, n: &PathFNode) -> Seq<(u16, PathFNode)> {
    (if explore_all && last_of(n.repairs.v()) != Some(Repair::Delete) { this.ins(n) } else { Seq::empty() })
        + (if explore_all { this.del(n) } else { Seq::empty() }) + this.shf(n)
}
//@ctx neighbours: every node has a history (it ends in the Terminator value)
fn neighbours(this: &CPCTPlus, finish_by: Instant, explore_all: bool, n: &PathFNode, nbrs: &mut Vec<(u16, PathFNode)>) -> (r: bool)
    requires n.repairs.v() is Cons,
    ensures
        r ==> final(nbrs)@ == old(nbrs)@ + moves_of(this, explore_all, n), // OBL: C06.neighbours.every_move_is_tried_except_an_insert_after_a_delete C05.neighbours.every_move_is_tried_except_an_insert_after_a_delete
        !r ==> final(nbrs)@ == old(nbrs)@, // OBL: C06.neighbours.out_of_time_adds_nothing
{
    //@probe
    //@body file=lrpar/src/lib/cpctplus.rs fn=recover block=`^\s*if Instant::now\(\) >= finish_by \{` end=`^\s*true$`
    //@rule n=1 `if Instant::now\(\) >= finish_by \{` => `if Instant::now().ge(finish_by) {`
    //@rule n=1 `match n\.last_repair\(\) \{` => `match last_repair(n) {`
    //@rule n=* `\bself\.(insert|delete|shift)\(n, nbrs\);` => `this.\1(n, nbrs);`
    //@endbody
}
//@ctx success: a node's parse stack is never empty
fn success(parser: &Parser, n: &PathFNode) -> (r: bool)
    requires n.pstack.nonempty(),
    ensures r == (three_shifts(n.repairs.v()) || parser.s_action(n.pstack.stop(), parser.s_next_tidx(n.laidx as int)) is Accept), // OBL: C07.success.three_trailing_shifts_or_acceptance C05.success.three_trailing_shifts_or_acceptance C06.success.three_trailing_shifts_or_acceptance
{
    //@probe
    //@body file=lrpar/src/lib/cpctplus.rs fn=recover block=`^\s*if ends_with_parse_at_least_shifts\(&n\.repairs\) \{` end=`^\s*\)$`
    //@rule n=1 `parser\s*\.stable\s*\.action\(\*n\.pstack\.val\(\)\.unwrap\(\), parser\.next_tidx\(n\.laidx\)\)` => `parser.stable_action(n.pstack.val_unwrap(), parser.next_tidx(n.laidx))`
    //@endbody
}
//@use prelude/tail.rs
