//@unit c10_rule props=C10 widths=u32
//@use prelude/head.rs
//@use prelude/grammar.rs

// The constructor of YaccGrammar: the loop over the productions of one user rule (new_from_ast_with_validity_info,
// `for &pidx in &ast.rules[astrulename].pidxs`).  The two inner blocks have their own units (symbols: c10_prods,
// precedence: c03_prodprec) and are stand-ins here.  Decides for C10: the productions of a rule are exactly the AST's,
// in source order, under the AST's own production numbers; each is recorded as belonging to this rule; nothing else
// changes (so rules_prods and prods_rules are each other's inverse once every rule has been through this loop).
#[verifier::external_body] pub struct Name { _x: usize }
impl Name { #[verifier::external_body] pub fn clone(&self) -> (r: Name) ensures r == *self { unimplemented!() } }
#[derive(Clone, Copy)] pub struct Span { pub st: usize, pub en: usize }
#[verifier::external_body] pub struct AstProduction { _x: usize }
impl AstProduction {
    pub uninterp spec fn image(&self) -> Seq<Symbol<$T>>;          // what unit c10_prods proves the symbol block builds
    pub uninterp spec fn sprec(&self) -> Option<(Precedence, Span)>;   // what unit c03_prodprec proves the precedence block finds
    pub uninterp spec fn saction(&self) -> Option<(Name, Span)>;
    #[verifier::external_body] pub fn action(&self) -> (r: &Option<(Name, Span)>) ensures *r == self.saction() { unimplemented!() }
}
// contract proved in unit c10_prods
#[verifier::external_body] pub fn prod_symbols(astprod: &AstProduction) -> (r: Vec<Symbol<$T>>) ensures r@ == astprod.image() { unimplemented!() }
// contract proved in unit c03_prodprec
#[verifier::external_body] pub fn prodprec(astprod: &AstProduction) -> (r: Option<(Precedence, Span)>) ensures r == astprod.sprec() { unimplemented!() }
// `prec.map(|(prec, _)| prec)`
pub fn first_prec(o: Option<(Precedence, Span)>) -> (r: Option<Precedence>) ensures r == spec_first_prec(o) { match o { Some((p, _)) => Some(p), None => None } }
pub open spec fn spec_first_prec(o: Option<(Precedence, Span)>) -> Option<Precedence> { match o { Some(t) => Some(t.0), None => None } }
// `(*rule).push(x)` with `rule = &mut rules_prods[i]`
#[verifier::external_body]
pub fn vv_push(v: &mut Vec<Vec<PIdx<$T>>>, i: usize, x: PIdx<$T>)
    requires i < old(v)@.len(), // OBLG: vec_index_in_range
    ensures final(v)@.len() == old(v)@.len(), final(v)@[i as int]@ == old(v)@[i as int]@.push(x),
        forall|j: int| 0 <= j < old(v)@.len() && j != i ==> #[trigger] final(v)@[j] == old(v)@[j],
{ unimplemented!() }

// ---------------- specification ----------------
pub open spec fn as_pidxs(s: Seq<usize>, k: int) -> Seq<PIdx<$T>> decreases k { if k <= 0 { Seq::empty() } else { as_pidxs(s, k - 1).push(PIdx(s[k - 1] as $T)) } }
pub open spec fn among(s: Seq<usize>, k: int, i: int) -> bool { exists|j: int| 0 <= j < k && #[trigger] s[j] == i }

//@ctx user_rule: the AST is the parser's: the production numbers of a rule are distinct indices below ast.prods.len(), which the StorageT guard has bounded by StorageT::MAX; the per-production vectors were created with ast.prods.len() entries
fn user_rule(rules_prods: &mut Vec<Vec<PIdx<$T>>>, prods: &mut Vec<Option<Vec<Symbol<$T>>>>, prod_precs: &mut Vec<Option<Option<Precedence>>>, prods_rules: &mut Vec<Option<RIdx<$T>>>,
             actions: &mut Vec<Option<Name>>, action_spans: &mut Vec<Option<Span>>, ridx: RIdx<$T>, ast_prods: &Vec<AstProduction>, pidxs: &Vec<usize>)
    requires
        (ridx.0 as nat) < old(rules_prods)@.len(),
        ast_prods@.len() <= old(prods)@.len(), ast_prods@.len() <= $TMAX,
        old(prods)@.len() == old(prod_precs)@.len() && old(prods)@.len() == old(prods_rules)@.len() && old(prods)@.len() == old(actions)@.len() && old(prods)@.len() == old(action_spans)@.len(),
        forall|k: int| 0 <= k < pidxs@.len() ==> (#[trigger] pidxs@[k]) < ast_prods@.len(),
        forall|a: int, b: int| 0 <= a < b < pidxs@.len() ==> (#[trigger] pidxs@[a]) != (#[trigger] pidxs@[b]),
    ensures
        final(prods)@.len() == old(prods)@.len() && final(prod_precs)@.len() == old(prods)@.len() && final(prods_rules)@.len() == old(prods)@.len()
            && final(actions)@.len() == old(prods)@.len() && final(action_spans)@.len() == old(prods)@.len(), // OBL: C10.per_production_vectors_stay_parallel.user_rule
        final(rules_prods)@.len() == old(rules_prods)@.len(),
        final(rules_prods)@[ridx.0 as int]@ == old(rules_prods)@[ridx.0 as int]@ + as_pidxs(pidxs@, pidxs@.len() as int), // OBL: C10.rule.productions_listed_in_source_order_under_their_own_numbers
        forall|j: int| 0 <= j < old(rules_prods)@.len() && j != ridx.0 ==> #[trigger] final(rules_prods)@[j] == old(rules_prods)@[j],
        forall|k: int| 0 <= k < pidxs@.len() ==> {
            let p = (#[trigger] pidxs@[k]) as int;
            final(prods)@[p] is Some && final(prods)@[p]->Some_0@ == ast_prods@[p].image()
                && final(prods_rules)@[p] == Some(ridx) && final(prod_precs)@[p] == Some(spec_first_prec(ast_prods@[p].sprec()))
        }, // OBL: C10.rule.each_production_is_recorded_with_its_symbols_its_rule_and_its_precedence
        forall|i: int| 0 <= i < old(prods)@.len() && !among(pidxs@, pidxs@.len() as int, i) ==> (#[trigger] final(prods)@[i]) == old(prods)@[i], // OBL: C10.rule.productions_of_other_rules_are_left_alone
        forall|i: int| 0 <= i < old(prods)@.len() && !among(pidxs@, pidxs@.len() as int, i) ==> (#[trigger] final(prods_rules)@[i]) == old(prods_rules)@[i], // OBL: C10.rule.productions_of_other_rules_are_left_alone
        forall|i: int| 0 <= i < old(prods)@.len() && !among(pidxs@, pidxs@.len() as int, i) ==> (#[trigger] final(prod_precs)@[i]) == old(prod_precs)@[i], // OBL: C10.rule.productions_of_other_rules_are_left_alone
        forall|i: int| 0 <= i < old(prods)@.len() && !among(pidxs@, pidxs@.len() as int, i) ==> (#[trigger] final(actions)@[i]) == old(actions)@[i], // OBL: C10.rule.productions_of_other_rules_are_left_alone
        forall|i: int| 0 <= i < old(prods)@.len() && !among(pidxs@, pidxs@.len() as int, i) ==> (#[trigger] final(action_spans)@[i]) == old(action_spans)@[i], // OBL: C10.rule.productions_of_other_rules_are_left_alone
{
    //@probe
    //@body file=cfgrammar/src/lib/yacc/grammar.rs fn=new_from_ast_with_validity_info block=`^\s*let rule = &mut rules_prods\[usize::from\(ridx\)\];$` end=`^            \}$`
    //@rule n=1 `^(\s*)let rule = &mut rules_prods\[usize::from\(ridx\)\];$` => `\1let rule_i_ = usize::from(ridx);`
    //@rule n=1 `let mut prod = Vec::with_capacity\(astprod\.symbols\.len\(\)\);\n(?:.|\n)*?\n(\s*)let mut prec = None;\n(?:.|\n)*?\n(\s*)\(\*rule\)\.push\(` => `let prod = prod_symbols(astprod);   // (unit c10_prods)\n\1let prec = prodprec(astprod);   // (unit c03_prodprec)\n\2vv_push(rules_prods, rule_i_, `
    //@atend n=1 `^(\s*)for &pidx in &ast\.rules\[astrulename\]\.pidxs \{$` =>>
        proof {
            assert(rules_prods@[rule_i_ as int]@ =~= rp0[rule_i_ as int]@ + as_pidxs(pidxs@, pk_ + 1));
            assert forall|i: int| 0 <= i < p0.len() && !among(pidxs@, pk_ + 1, i) implies !among(pidxs@, pk_ as int, i) by {
                if among(pidxs@, pk_ as int, i) { let j = choose|j: int| 0 <= j < pk_ && #[trigger] pidxs@[j] == i; assert(0 <= j < pk_ + 1 && pidxs@[j] == i); }
            }
            assert forall|i: int| 0 <= i < p0.len() && !#[trigger] among(pidxs@, pk_ + 1, i) implies i != pidx by {
                if i == pidx { assert(pidxs@[pk_ as int] == i); assert(among(pidxs@, pk_ + 1, i)); }
            }
            assert forall|k: int| 0 <= k < pk_ implies (#[trigger] pidxs@[k]) != pidx by { }
        }
    //@end
    //@rule n=1 `^(\s*)for &pidx in &ast\.rules\[astrulename\]\.pidxs \{$` =>>
    let ghost (p0, pp0, pr0, a0, as0, rp0) = (prods@, prod_precs@, prods_rules@, actions@, action_spans@, rules_prods@);
    for pk_ in 0..pidxs.len()
        invariant
            rule_i_ == ridx.0, rule_i_ < rules_prods@.len(), rules_prods@.len() == rp0.len(), ast_prods@.len() <= prods@.len(), ast_prods@.len() <= $TMAX,
            prods@.len() == p0.len() && prod_precs@.len() == p0.len() && prods_rules@.len() == p0.len() && actions@.len() == p0.len() && action_spans@.len() == p0.len(),
            pp0.len() == p0.len() && pr0.len() == p0.len() && a0.len() == p0.len() && as0.len() == p0.len(),
            forall|k: int| 0 <= k < pidxs@.len() ==> (#[trigger] pidxs@[k]) < ast_prods@.len(),
            forall|a: int, b: int| 0 <= a < b < pidxs@.len() ==> (#[trigger] pidxs@[a]) != (#[trigger] pidxs@[b]),
            rules_prods@[rule_i_ as int]@ == rp0[rule_i_ as int]@ + as_pidxs(pidxs@, pk_ as int),
            forall|j: int| 0 <= j < rp0.len() && j != rule_i_ ==> #[trigger] rules_prods@[j] == rp0[j],
            forall|k: int| 0 <= k < pk_ ==> {
                let p = (#[trigger] pidxs@[k]) as int;
                prods@[p] is Some && prods@[p]->Some_0@ == ast_prods@[p].image() && prods_rules@[p] == Some(ridx) && prod_precs@[p] == Some(spec_first_prec(ast_prods@[p].sprec()))
            },
            forall|i: int| 0 <= i < p0.len() && !among(pidxs@, pk_ as int, i) ==> (#[trigger] prods@[i]) == p0[i],
            forall|i: int| 0 <= i < p0.len() && !among(pidxs@, pk_ as int, i) ==> (#[trigger] prods_rules@[i]) == pr0[i],
            forall|i: int| 0 <= i < p0.len() && !among(pidxs@, pk_ as int, i) ==> (#[trigger] prod_precs@[i]) == pp0[i],
            forall|i: int| 0 <= i < p0.len() && !among(pidxs@, pk_ as int, i) ==> (#[trigger] actions@[i]) == a0[i],
            forall|i: int| 0 <= i < p0.len() && !among(pidxs@, pk_ as int, i) ==> (#[trigger] action_spans@[i]) == as0[i],
    {
        //@probe
        let pidx = pidxs[pk_];
        proof { assert(among(pidxs@, pk_ + 1, pidx as int)); }
    //@end
    //@rule n=1 `let astprod = &ast\.prods\[pidx\];` => `let astprod = &ast_prods[pidx];`
    //@rule n=1 `prod_precs\[pidx\] = Some\(prec\.map\(\|\(prec, _\)\| prec\)\);` => `prod_precs[pidx] = Some(first_prec(prec));`
    //@rule n=1 `if let Some\(\(s, span\)\) = &astprod\.action \{` => `if let Some((s, span)) = astprod.action() {`
    //@endbody
}
//@use prelude/tail.rs
