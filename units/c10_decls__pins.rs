//@unit c10_decls__pins props=C10 widths=u32
//@use prelude/head.rs
// not under contract: the rest of the yacc grammar parser and the AST builders (faithfulness judged by the c10 sweep when one changes)
//@pin file=cfgrammar/src/lib/yacc/parser.rs fn=parse sha=9ea0ca7997c256a8
//@pin file=cfgrammar/src/lib/yacc/parser.rs fn=parse_rules sha=499c9e675c2e74c2
//@pin file=cfgrammar/src/lib/yacc/parser.rs fn=parse_rule sha=808b80f35b423e0e
//@pin file=cfgrammar/src/lib/yacc/parser.rs fn=parse_action sha=e00c613ee10ea206
//@pin file=cfgrammar/src/lib/yacc/parser.rs fn=parse_programs sha=bb9c484143dab195
//@pin file=cfgrammar/src/lib/yacc/parser.rs fn=build sha=662f52b88f00489d
//@pin file=cfgrammar/src/lib/yacc/ast.rs fn=unused_symbols sha=3d0d006d8a29898b
//@pin file=cfgrammar/src/lib/yacc/grammar.rs fn=new_with_storaget sha=765ea3159713f061
// RE_NAME (what counts as a name / a token in a grammar): a change is judged by the rendering sweep
//@expect file=cfgrammar/src/lib/yacc/parser.rs re=`Regex::new\(r"\^\[a\-zA\-Z_\.\]\[a\-zA\-Z0\-9_\.\]\*"\)\.unwrap\(\)`
// RE_TOKEN (what counts as a name / a token in a grammar): a change is judged by the rendering sweep
//@expect file=cfgrammar/src/lib/yacc/parser.rs re=`Regex::new\("\^\(\?:\(\\"\.\+\?\\"\)\|\('\.\+\?'\)\|\(\[a\-zA\-Z_\]\[a\-zA\-Z_0\-9\]\*\)\)"\)\.unwrap\(\)`
//@use prelude/tail.rs
