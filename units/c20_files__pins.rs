//@unit c20_files__pins props=C20 widths=u32
//@use prelude/head.rs
// the source files the property is anchored in, pinned whole (test modules, comments and layout apart): a change to anything in
// them that is neither under contract nor pinned by name still makes this unit undecided, which sends the check to the
// property's bounded sweep of the real code
//@pinfile file=cfgrammar/src/lib/yacc/grammar.rs sha=b2daa9fc80630f0d
//@pinfile file=cfgrammar/src/lib/idxnewtype.rs sha=67617d080f70c68e
//@pinfile file=lrtable/src/lib/pager.rs sha=2691abd40282da88
//@pinfile file=lrtable/src/lib/stategraph.rs sha=9ccc3fac48635c00
//@pinfile file=lrtable/src/lib/statetable.rs sha=d87829631c7b15fa
//@pinfile file=lrlex/src/lib/parser.rs sha=ee184a9fe8ea3991
//@use prelude/tail.rs
