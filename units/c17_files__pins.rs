//@unit c17_files__pins props=C17 widths=u32
//@use prelude/head.rs
// the source files the property is anchored in, pinned whole (test modules, comments and layout apart): a change to anything in
// them that is neither under contract nor pinned by name still makes this unit undecided, which sends the check to the
// property's bounded sweep of the real code
//@pinfile file=cfgrammar/src/lib/yacc/firsts.rs sha=f7b328f92710afda
//@pinfile file=cfgrammar/src/lib/yacc/follows.rs sha=b77476276b5ffb44
//@pinfile file=cfgrammar/src/lib/yacc/grammar.rs sha=b2daa9fc80630f0d
//@use prelude/tail.rs
