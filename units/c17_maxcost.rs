//@unit c17_maxcost props=C17 widths=u32
//@use prelude/head.rs
//@use prelude/grammar.rs
//@use units/c17_derives.inc

// rule_max_costs (cfgrammar/src/lib/yacc/grammar.rs): the cost of a maximal sentence of every rule, u16::MAX standing
// for "unbounded".  Proved (partial correctness): a rule that can reach itself is reported unbounded; for a rule
// reported with a finite cost, no derivation tree of the rule costs more and some derivation tree costs exactly that.
// Not decided here: that the loop terminates (it does because the rules not marked unbounded form a DAG), and that a
// rule reported unbounded really derives sentences of unbounded cost (false for rules that derive nothing).
pub type CV = Seq<u16>;
pub open spec fn INF() -> u16 { u16::MAX }
// sum of the token costs and (listed) rule costs of the first k symbols of production p
pub open spec fn psum(g: &YaccGrammar, tc: TC, C: CV, p: int, k: int) -> int
    decreases k
{
    if k <= 0 { 0 } else {
        psum(g, tc, C, p, k - 1) + match g.prods()[p][k - 1] {
            Symbol::Token(t) => tc[t.0 as int] as int,
            Symbol::Rule(q) => C[q.0 as int] as int,
        }
    }
}
// none of the first k symbols of p is a rule listed as unbounded
pub open spec fn finite_syms(g: &YaccGrammar, C: CV, p: int, k: int) -> bool {
    forall|j: int| 0 <= j < k ==> (#[trigger] g.prods()[p][j] matches Symbol::Rule(q) ==> C[q.0 as int] != INF())
}
// the first k symbols of p that are rules are finished
pub open spec fn done_syms(g: &YaccGrammar, D: Seq<bool>, p: int, k: int) -> bool {
    forall|j: int| 0 <= j < k ==> (#[trigger] g.prods()[p][j] matches Symbol::Rule(q) ==> D[q.0 as int])
}
// a finished rule with a finite cost dominates every one of its productions, which only mention finished finite rules
pub open spec fn prod_dominated(g: &YaccGrammar, tc: TC, C: CV, D: Seq<bool>, p: int) -> bool {
    let n = g.prods()[p].len() as int;
    finite_syms(g, C, p, n) && done_syms(g, D, p, n) && psum(g, tc, C, p, n) <= C[g.rule_of()[p].0 as int]
}
pub open spec fn settled(g: &YaccGrammar, tc: TC, C: CV, D: Seq<bool>, r: int) -> bool {
    D[r] && C[r] != INF() ==> forall|p: int| #[trigger] prod_of(g, r, p) ==> prod_dominated(g, tc, C, D, p)
}
pub open spec fn all_settled(g: &YaccGrammar, tc: TC, C: CV, D: Seq<bool>) -> bool {
    C.len() == g.nrules() && D.len() == g.nrules() && forall|r: int| 0 <= r < g.nrules() ==> #[trigger] settled(g, tc, C, D, r)
}
// no derivation tree of a settled finite rule costs more than listed
pub proof fn lemma_upper(g: &YaccGrammar, tc: TC, C: CV, D: Seq<bool>, r: int, c: int, h: nat)
    requires g.wf(), tc.len() == g.ntok(), all_settled(g, tc, C, D), 0 <= r < g.nrules(), D[r], C[r] != INF(), derives(g, tc, r, c, h)
    ensures c <= C[r]
    decreases h, 0nat
{
    let p = choose|p: int| #[trigger] prod_of(g, r, p) && pderives(g, tc, p, g.prods()[p].len() as int, c, (h - 1) as nat);
    assert(settled(g, tc, C, D, r));
    assert(prod_dominated(g, tc, C, D, p));
    lemma_pupper(g, tc, C, D, p, g.prods()[p].len() as int, c, (h - 1) as nat);
}
pub proof fn lemma_pupper(g: &YaccGrammar, tc: TC, C: CV, D: Seq<bool>, p: int, k: int, c: int, h: nat)
    requires g.wf(), tc.len() == g.ntok(), all_settled(g, tc, C, D), 0 <= p < g.nprods(), 0 <= k <= g.prods()[p].len(),
        finite_syms(g, C, p, k), done_syms(g, D, p, k), pderives(g, tc, p, k, c, h)
    ensures c <= psum(g, tc, C, p, k)
    decreases h, (k + 1) as nat
{
    if k > 0 {
        let c1 = choose|c1: int| #[trigger] part_of(c1, c) && pderives(g, tc, p, k - 1, c1, h) && match g.prods()[p][k - 1] {
            Symbol::Token(t) => c - c1 == tc[t.0 as int],
            Symbol::Rule(q) => derives(g, tc, q.0 as int, c - c1, h),
        };
        assert(finite_syms(g, C, p, k - 1)) by { assert forall|j: int| 0 <= j < k - 1 implies (#[trigger] g.prods()[p][j] matches Symbol::Rule(q) ==> C[q.0 as int] != INF()) by { } }
        assert(done_syms(g, D, p, k - 1)) by { assert forall|j: int| 0 <= j < k - 1 implies (#[trigger] g.prods()[p][j] matches Symbol::Rule(q) ==> D[q.0 as int]) by { } }
        lemma_pupper(g, tc, C, D, p, k - 1, c1, h);
        match g.prods()[p][k - 1] {
            Symbol::Token(t) => {}
            Symbol::Rule(q) => { lemma_upper(g, tc, C, D, q.0 as int, c - c1, h); }
        }
    }
}
// psum only looks at the costs of the rules it mentions
pub proof fn lemma_psum_frame(g: &YaccGrammar, tc: TC, C0: CV, C1: CV, p: int, k: int)
    requires g.wf(), 0 <= p < g.nprods(), 0 <= k <= g.prods()[p].len(), C0.len() == g.nrules(), C1.len() == g.nrules(),
        forall|j: int| 0 <= j < k ==> (#[trigger] g.prods()[p][j] matches Symbol::Rule(q) ==> C1[q.0 as int] == C0[q.0 as int]),
    ensures psum(g, tc, C1, p, k) == psum(g, tc, C0, p, k)
    decreases k
{
    if k > 0 {
        assert forall|j: int| 0 <= j < k - 1 implies (#[trigger] g.prods()[p][j] matches Symbol::Rule(q) ==> C1[q.0 as int] == C0[q.0 as int]) by { }
        lemma_psum_frame(g, tc, C0, C1, p, k - 1);
    }
}

// what is known of a production of the rule in hand once it has been looked at
pub open spec fn seen_ok(g: &YaccGrammar, tc: TC, C: CV, D: Seq<bool>, p: int, hc: Option<u16>, hn: Option<u16>) -> bool {
    let n = g.prods()[p].len() as int;
    &&& finite_syms(g, C, p, n)
    &&& if done_syms(g, D, p, n) { hc is Some && psum(g, tc, C, p, n) <= hc->Some_0 } else { hn is Some && psum(g, tc, C, p, n) <= hn->Some_0 }
}
// psum grows with the costs
pub proof fn lemma_psum_mono(g: &YaccGrammar, tc: TC, C0: CV, C1: CV, p: int, k: int)
    requires g.wf(), 0 <= p < g.nprods(), 0 <= k <= g.prods()[p].len(), C0.len() == g.nrules(), C1.len() == g.nrules(),
        forall|r: int| 0 <= r < g.nrules() ==> #[trigger] C0[r] <= C1[r],
    ensures psum(g, tc, C0, p, k) <= psum(g, tc, C1, p, k)
    decreases k
{
    if k > 0 { lemma_psum_mono(g, tc, C0, C1, p, k - 1); }
}
// an unfinished rule's provisional cost is at most what one of its productions currently sums to (so the costs only grow)
pub open spec fn lb_ok(g: &YaccGrammar, tc: TC, C: CV, D: Seq<bool>, W: Seq<int>, r: int) -> bool {
    !D[r] ==> C[r] == 0 || (prod_of(g, r, W[r]) && C[r] <= psum(g, tc, C, W[r], g.prods()[W[r]].len() as int))
}
pub open spec fn all_lb(g: &YaccGrammar, tc: TC, C: CV, D: Seq<bool>, W: Seq<int>) -> bool {
    W.len() == g.nrules() && forall|r: int| 0 <= r < g.nrules() ==> #[trigger] lb_ok(g, tc, C, D, W, r)
}
// raising the cost of the unfinished rule i (and possibly finishing it) keeps everything that was established
pub proof fn lemma_raise(g: &YaccGrammar, tc: TC, C0: CV, C1: CV, D0: Seq<bool>, D1: Seq<bool>, W0: Seq<int>, W1: Seq<int>, i: int)
    requires g.wf(), tc.len() == g.ntok(), 0 <= i < g.nrules(), all_settled(g, tc, C0, D0), all_lb(g, tc, C0, D0, W0), !D0[i],
        C1 == C0.update(i, C1[i]), C1.len() == C0.len(), C0[i] <= C1[i], D1 == D0.update(i, D1[i]), D1.len() == D0.len(), W1 == W0.update(i, W1[i]), W1.len() == W0.len(),
        settled(g, tc, C1, D1, i), lb_ok(g, tc, C1, D1, W1, i),
    ensures all_settled(g, tc, C1, D1), all_lb(g, tc, C1, D1, W1)
{
    assert forall|r: int| 0 <= r < g.nrules() implies #[trigger] settled(g, tc, C1, D1, r) by {
        if r != i && D1[r] && C1[r] != INF() {
            assert(settled(g, tc, C0, D0, r));
            assert forall|p: int| #[trigger] prod_of(g, r, p) implies prod_dominated(g, tc, C1, D1, p) by {
                assert(prod_dominated(g, tc, C0, D0, p));
                let n = g.prods()[p].len() as int;
                // p only mentions rules that were finished already: not i
                assert forall|j: int| 0 <= j < n implies (#[trigger] g.prods()[p][j] matches Symbol::Rule(q) ==> C1[q.0 as int] == C0[q.0 as int]) by {
                    if g.prods()[p][j] is Rule { assert(D0[g.prods()[p][j]->Rule_0.0 as int]); }
                }
                lemma_psum_frame(g, tc, C0, C1, p, n);
            }
        }
    }
    assert forall|r: int| 0 <= r < g.nrules() implies #[trigger] lb_ok(g, tc, C1, D1, W1, r) by {
        if r != i && !D1[r] && C1[r] != 0 {
            assert(lb_ok(g, tc, C0, D0, W0, r));
            lemma_psum_mono(g, tc, C0, C1, W0[r], g.prods()[W0[r]].len() as int);
        }
    }
}

// ---------------- stand-ins ----------------
// contract proved in unit c17_haspath
pub open spec fn reach1(g: &YaccGrammar, a: int, b: int) -> bool { exists|p: int, i: int| 0 <= p < g.nprods() && g.rule_of()[p].0 == a && 0 <= i < g.prods()[p].len() && #[trigger] g.prods()[p][i] == Symbol::Rule(RIdx::<$T>(b as $T)) }
pub uninterp spec fn reach(g: &YaccGrammar, a: int, b: int) -> bool;
#[verifier::external_body]
pub fn has_path(grm: &YaccGrammar, from: RIdx<$T>, to: RIdx<$T>) -> (r: bool)
    requires grm.wf(), (from.0 as nat) < grm.nrules(), (to.0 as nat) < grm.nrules(),
    ensures r == reach(grm, from.0 as int, to.0 as int),
{ unimplemented!() }
// derive(PartialOrd) on Option<u16>
#[verifier::external_body]
pub fn opt_gt(a: Option<u16>, b: Option<u16>) -> (r: bool)
    ensures r == match (a, b) { (Some(_), None) => true, (Some(x), Some(y)) => x > y, _ => false }
{ unimplemented!() }
#[verifier::external_body]
pub fn or_refuse(o: Option<u16>) -> (r: u16) ensures o is Some, r == o->Some_0 { unimplemented!() }
#[verifier::external_body]
pub fn false_vec(n: usize) -> (r: Vec<bool>) ensures r@.len() == n, forall|i: int| 0 <= i < n ==> !#[trigger] r@[i] { unimplemented!() }
#[verifier::external_body]
pub fn zero_vec(n: usize) -> (r: Vec<u16>) ensures r@.len() == n, forall|i: int| 0 <= i < n ==> #[trigger] r@[i] == 0 { unimplemented!() }
pub fn max_u16(a: u16, b: u16) -> (r: u16) ensures r == (if a >= b { a } else { b }) { if a >= b { a } else { b } }

//@ctx rule_max_costs: token_costs has one entry per token; a production cost that reaches u16::MAX is refused by the two documented panics ("Overflow occurred when calculating rule costs", "Unable to represent cost in 64 bits.")
#[verifier::exec_allows_no_decreases_clause]
fn rule_max_costs(grm: &YaccGrammar, token_costs: &[u8]) -> (r: Vec<u16>)
    requires grm.wf(), token_costs@.len() == grm.ntok(),
    ensures
        r@.len() == grm.nrules(),
        forall|i: int| 0 <= i < grm.nrules() && #[trigger] reach(grm, i, i) ==> r@[i] == INF(), // OBL: C17.costs.a_rule_that_reaches_itself_is_reported_unbounded
        forall|i: int, c: int, h: nat| 0 <= i < grm.nrules() && r@[i] != INF() && #[trigger] derives(grm, token_costs@, i, c, h) ==> c <= r@[i], // OBL: C17.costs.no_derivation_is_dearer_than_a_finite_maximum
        forall|i: int| 0 <= i < grm.nrules() && #[trigger] r@[i] != INF() ==> exists|h: nat| derives(grm, token_costs@, i, r@[i] as int, h), // OBL: C17.costs.a_finite_maximum_is_reached_by_a_derivation
{
    //@probe
    let ghost tc = token_costs@;
    let ghost mut hs: Seq<nat> = Seq::new(grm.nrules(), |i: int| 0nat);
    let ghost mut lbw: Seq<int> = Seq::new(grm.nrules(), |i: int| 0int);
    //@body file=cfgrammar/src/lib/yacc/grammar.rs fn=rule_max_costs
    //@rule n=1 `let mut done = vec!\[false; usize::from\(grm\.rules_len\(\)\)\];` => `let mut done = false_vec(usize::from(grm.rules_len()));`
    //@rule n=1 `let mut costs = vec!\[0; usize::from\(grm\.rules_len\(\)\)\];` => `let mut costs = zero_vec(usize::from(grm.rules_len()));`
    //@rule n=1 `^(\s*)for ridx in grm\.iter_rules\(\) \{$` =>>
    let nr_ = usize::from(grm.rules_len());
    for ri_ in 0..nr_
        invariant grm.wf(), nr_ == grm.nrules(), costs@.len() == nr_, done@.len() == nr_,
            forall|r: int| 0 <= r < ri_ && #[trigger] reach(grm, r, r) ==> costs@[r] == INF() && done@[r],
            forall|r: int| 0 <= r < nr_ && #[trigger] done@[r] ==> costs@[r] == INF(),
            forall|r: int| 0 <= r < nr_ && !#[trigger] done@[r] ==> costs@[r] == 0,
    {
        //@probe
        // dialect rule 5: grm.iter_rules() is (0..rules_len).map(|x| RIdx(x.as_()))
        let ridx = RIdx(narrow_$T(ri_));
    //@end
    //@rule n=1 `if grm\.has_path\(ridx, ridx\) \{` => `if has_path(grm, ridx, ridx) {`
    //@rule n=1 `^(\s*)loop \{$` =>>
    loop
        invariant grm.wf(), tc == token_costs@, tc.len() == grm.ntok(), costs@.len() == grm.nrules(), done@.len() == grm.nrules(), hs.len() == grm.nrules(),
            forall|r: int| 0 <= r < grm.nrules() && #[trigger] reach(grm, r, r) ==> costs@[r] == INF() && done@[r], // OBL: C17.costs.recursive_rules_stay_unbounded
            all_settled(grm, tc, costs@, done@), // OBL: C17.costs.a_finished_finite_rule_dominates_its_productions
            all_lb(grm, tc, costs@, done@, lbw), // OBL: C17.costs.provisional_costs_only_grow
            forall|r: int| 0 <= r < grm.nrules() && (#[trigger] done@[r]) && costs@[r] != INF() ==> derives(grm, tc, r, costs@[r] as int, hs[r]), // OBL: C17.costs.a_finished_finite_cost_is_reached_by_a_derivation
        ensures forall|r: int| 0 <= r < grm.nrules() ==> #[trigger] done@[r], // OBL: C17.costs.max_loop_ends_when_every_rule_is_finished
    {
        //@probe
    //@end
    //@rule n=1 `^(\s*)for i in 0\.\.done\.len\(\) \{$` =>>
        let n_ = done.len();
        let mut i_next_: usize = 0;
        while i_next_ < n_
            invariant i_next_ <= n_, grm.wf(), tc == token_costs@, tc.len() == grm.ntok(), n_ == grm.nrules(), costs@.len() == n_, done@.len() == n_, hs.len() == n_,
                forall|r: int| 0 <= r < n_ && #[trigger] reach(grm, r, r) ==> costs@[r] == INF() && done@[r],
                all_settled(grm, tc, costs@, done@), all_lb(grm, tc, costs@, done@, lbw),
                forall|r: int| 0 <= r < n_ && (#[trigger] done@[r]) && costs@[r] != INF() ==> derives(grm, tc, r, costs@[r] as int, hs[r]),
                all_done ==> forall|r: int| 0 <= r < i_next_ ==> #[trigger] done@[r], // OBL: C17.costs.all_done_flag_means_every_rule_seen_was_finished
            decreases n_ - i_next_,
        {
            //@probe
            // dialect rule 5: for i in 0..n; the counter advances first so that `continue` keeps its meaning
            let i = i_next_;
            i_next_ = i_next_ + 1;
    //@end
    //@rule n=1 `^(\s*)'a: for pidx in grm\.rule_to_prods\(RIdx\(narrow_\$T\(i\)\)\)\.iter\(\) \{$` =>>
            let ps_ = grm.rule_to_prods(RIdx(narrow_$T(i)));
            let mut pk_next_: usize = 0;
            let ghost mut wc_: int = -1;      // a complete production that attains hs_cmplt, and the height of its derivation
            let ghost mut wch_: nat = 0;
            let ghost mut wn_: int = -1;      // a non-complete production that attains hs_noncmplt
            let ghost mut broke_: bool = false;
            #[verifier::loop_isolation(false)]
            #[verifier::allow_complex_invariants]
            'a: while pk_next_ < ps_.len()
                invariant_except_break
                    pk_next_ <= ps_@.len(), !broke_,
                    hs_cmplt is None && hs_noncmplt is None ==> pk_next_ == 0,
                    hs_cmplt matches Some(x) ==> 0 <= wc_ < pk_next_ && done_syms(grm, done@, ps_@[wc_].0 as int, grm.prods()[ps_@[wc_].0 as int].len() as int) && x == psum(grm, tc, costs@, ps_@[wc_].0 as int, grm.prods()[ps_@[wc_].0 as int].len() as int)
                        && pderives(grm, tc, ps_@[wc_].0 as int, grm.prods()[ps_@[wc_].0 as int].len() as int, x as int, wch_),
                    hs_noncmplt matches Some(y) ==> 0 <= wn_ < pk_next_ && y == psum(grm, tc, costs@, ps_@[wn_].0 as int, grm.prods()[ps_@[wn_].0 as int].len() as int),
                    forall|k: int| 0 <= k < pk_next_ ==> seen_ok(grm, tc, costs@, done@, (#[trigger] ps_@[k]).0 as int, hs_cmplt, hs_noncmplt), // OBL: C17.costs.the_two_maxima_dominate_every_production_seen
                ensures broke_ ==> hs_cmplt == Some(INF()),
                    !broke_ ==> pk_next_ == ps_@.len()
                        && (hs_cmplt is None && hs_noncmplt is None ==> pk_next_ == 0)
                        && (hs_cmplt matches Some(x) ==> 0 <= wc_ < pk_next_ && done_syms(grm, done@, ps_@[wc_].0 as int, grm.prods()[ps_@[wc_].0 as int].len() as int) && x == psum(grm, tc, costs@, ps_@[wc_].0 as int, grm.prods()[ps_@[wc_].0 as int].len() as int)
                        && pderives(grm, tc, ps_@[wc_].0 as int, grm.prods()[ps_@[wc_].0 as int].len() as int, x as int, wch_))
                        && (hs_noncmplt matches Some(y) ==> 0 <= wn_ < pk_next_ && y == psum(grm, tc, costs@, ps_@[wn_].0 as int, grm.prods()[ps_@[wn_].0 as int].len() as int))
                        && (forall|k: int| 0 <= k < pk_next_ ==> seen_ok(grm, tc, costs@, done@, (#[trigger] ps_@[k]).0 as int, hs_cmplt, hs_noncmplt)),
                decreases ps_@.len() - pk_next_,
            {
                //@probe
                // dialect rule 5: for pidx in <slice>.iter(); the counter advances first so that `break 'a` / `continue` keep their meaning
                let pidx = &ps_[pk_next_];
                pk_next_ = pk_next_ + 1;
                let ghost p = pidx.0 as int;
                let ghost mut hp: nat = 0;
                assert(grm.rule_of()[p].0 == i);
    //@end
    //@rule n=1 `^(\s*)for sym in grm\.prod\(\*pidx\) \{$` =>>
                let prod_ = grm.prod(*pidx);
                let mut sk_next_: usize = 0;
                let ghost hc0_ = hs_cmplt;
                #[verifier::loop_isolation(false)]
                #[verifier::allow_complex_invariants]
                while sk_next_ < prod_.len()
                    invariant_except_break
                        sk_next_ <= prod_@.len(), prod_@ == grm.prods()[p], !broke_, hs_cmplt == hc0_,
                        finite_syms(grm, costs@, p, sk_next_ as int), c == psum(grm, tc, costs@, p, sk_next_ as int),
                        cmplt == done_syms(grm, done@, p, sk_next_ as int),
                        cmplt ==> pderives(grm, tc, p, sk_next_ as int, c as int, hp), // OBL: C17.costs.running_maximum_cost_is_reached_by_the_symbols_so_far
                    ensures broke_ ==> hs_cmplt == Some(INF()),
                        !broke_ ==> hs_cmplt == hc0_ && sk_next_ == prod_@.len() && finite_syms(grm, costs@, p, sk_next_ as int) && c == psum(grm, tc, costs@, p, sk_next_ as int)
                            && cmplt == done_syms(grm, done@, p, sk_next_ as int) && (cmplt ==> pderives(grm, tc, p, sk_next_ as int, c as int, hp)),
                    decreases prod_@.len() - sk_next_,
                {
                    //@probe
                    let sym = &prod_[sk_next_];
                    sk_next_ = sk_next_ + 1;
                    let ghost c_before = c;
                    let ghost hp_before = hp;
                    let ghost cmplt_before = cmplt;
    //@end
    //@rule n=1 `^(\s*)break 'a;$` => `\1proof { broke_ = true; }\n\1break 'a;`
    //@rule n=1 `c = c\s*\.checked_add\(sc\)\s*\.expect\("Overflow occurred when calculating rule costs"\);` =>>
                    c = or_refuse(c.checked_add(sc));
                    proof {
                        let k = sk_next_ as int;
                        assert forall|j: int| 0 <= j < k implies (#[trigger] grm.prods()[p][j] matches Symbol::Rule(q) ==> costs@[q.0 as int] != INF()) by { if j < k - 1 { assert(finite_syms(grm, costs@, p, k - 1)); } }
                        assert(cmplt == done_syms(grm, done@, p, k)) by {
                            if cmplt { assert forall|j: int| 0 <= j < k implies (#[trigger] grm.prods()[p][j] matches Symbol::Rule(q) ==> done@[q.0 as int]) by { if j < k - 1 { assert(done_syms(grm, done@, p, k - 1)); } } }
                            else if cmplt_before { assert(grm.prods()[p][k - 1] is Rule && !done@[grm.prods()[p][k - 1]->Rule_0.0 as int]); }
                            else { assert(!done_syms(grm, done@, p, k - 1)); }
                        }
                        if cmplt {
                            match prod_@[k - 1] {
                                Symbol::Token(t) => { }
                                Symbol::Rule(q) => {
                                    let hq = hs[q.0 as int];
                                    if hq > hp { hp = hq; }
                                    lemma_mono(grm, tc, q.0 as int, sc as int, hq, hp);
                                }
                            }
                            lemma_pmono(grm, tc, p, k - 1, c_before as int, hp_before, hp);
                            assert(part_of(c_before as int, c as int));
                        }
                    }
    //@end
    //@rule n=1 `^(\s*)if all_done \{$` => `\1assert(n_ == grm.nrules());\n\1assert(forall|r: int| 0 <= r < n_ && #[trigger] reach(grm, r, r) ==> costs@[r] == INF() && done@[r]);\n\1if all_done {`
    //@rule n=1 `vpanic::<\(\)>\(\);` => `refuse();`
    //@rule n=1 `\{ let assert_cond_ = done\.iter\(\)\.all\(\|x\| \*x\); assert\(assert_cond_\); \}` => `assert(forall|r: int| 0 <= r < done@.len() ==> done@[r]);`
    //@rule n=1 `if cmplt && \(hs_cmplt\.is_none\(\) \|\| Some\(c\) > hs_cmplt\) \{` => `if cmplt && (hs_cmplt.is_none() || opt_gt(Some(c), hs_cmplt)) {`
    //@rule n=1 `\} else if !cmplt && \(hs_noncmplt\.is_none\(\) \|\| Some\(c\) > hs_noncmplt\) \{` => `} else if !cmplt && (hs_noncmplt.is_none() || opt_gt(Some(c), hs_noncmplt)) {`
    //@rule n=1 `^(\s*)hs_cmplt = Some\(c\);$` => `\1hs_cmplt = Some(c); proof { wc_ = pk_next_ - 1; wch_ = hp; }`
    //@rule n=1 `^(\s*)hs_noncmplt = Some\(c\);$` => `\1hs_noncmplt = Some(c); proof { wn_ = pk_next_ - 1; }`
    //@rule n=1 `let hs = hs_cmplt\.map_or\(hs_noncmplt, \|x\| x\.max\(hs_noncmplt\)\);` => `let hs = match hs_cmplt { Some(x) => max_u16(x, hs_noncmplt), None => hs_noncmplt };`
    //@rule n=1 `^(\s*)\{ let assert_cond_ = high_cmplt >= costs\[i\]; assert\(assert_cond_\); \}$` =>>
                proof {
                    if costs@[i as int] != 0 && !broke_ {
                        assert(lb_ok(grm, tc, costs@, done@, lbw, i as int));
                        let pw = lbw[i as int];
                        assert(grm.in_rule_prods(i as int, pw));
                        let k = choose|k: int| 0 <= k < grm.rule_prods()[i as int].len() && (#[trigger] grm.rule_prods()[i as int][k]).0 == pw;
                        assert(seen_ok(grm, tc, costs@, done@, ps_@[k].0 as int, hs_cmplt, hs_noncmplt));
                    }
                }
                { let assert_cond_ = high_cmplt >= costs[i]; assert(assert_cond_); }
    //@end
    //@rule n=1 `^(\s*)\{ let assert_cond_ = hs >= costs\[i\]; assert\(assert_cond_\); \}$` =>>
                proof {
                    if costs@[i as int] != 0 && !broke_ {
                        assert(lb_ok(grm, tc, costs@, done@, lbw, i as int));
                        let pw = lbw[i as int];
                        assert(grm.in_rule_prods(i as int, pw));
                        let k = choose|k: int| 0 <= k < grm.rule_prods()[i as int].len() && (#[trigger] grm.rule_prods()[i as int][k]).0 == pw;
                        assert(seen_ok(grm, tc, costs@, done@, ps_@[k].0 as int, hs_cmplt, Some(hs_noncmplt)));
                    }
                }
                { let assert_cond_ = hs >= costs[i]; assert(assert_cond_); }
    //@end
    //@rule n=1 `let mut hs_cmplt = None;` => `let mut hs_cmplt: Option<u16> = None;`
    //@rule n=1 `let mut hs_noncmplt = None;` => `let mut hs_noncmplt: Option<u16> = None;`
    //@rule n=1 `^(\s*)costs\[i\] = high_cmplt;\n(\s*)done\[i\] = true;$` =>>
                let ghost (C0_, D0_, W0_) = (costs@, done@, lbw);
                costs[i] = high_cmplt;
                done[i] = true;
                proof {
                    if high_cmplt != INF() {
                        assert(!broke_);
                        hs = hs.update(i as int, wch_ + 1);
                        assert(prod_of(grm, i as int, ps_@[wc_].0 as int));
                        assert forall|p: int| #[trigger] prod_of(grm, i as int, p) implies prod_dominated(grm, tc, costs@, done@, p) by {
                            assert(grm.in_rule_prods(i as int, p));
                            let k = choose|k: int| 0 <= k < grm.rule_prods()[i as int].len() && (#[trigger] grm.rule_prods()[i as int][k]).0 == p;
                            let n = grm.prods()[p].len() as int;
                            assert(seen_ok(grm, tc, C0_, D0_, ps_@[k].0 as int, hs_cmplt, hs_noncmplt));
                            assert(done_syms(grm, D0_, ps_@[k].0 as int, n) && finite_syms(grm, C0_, ps_@[k].0 as int, n));
                            // p mentions finished rules only: not i, whose cost has just changed
                            assert forall|j: int| 0 <= j < n implies (#[trigger] grm.prods()[p][j] matches Symbol::Rule(q) ==> costs@[q.0 as int] == C0_[q.0 as int] && done@[q.0 as int] && costs@[q.0 as int] != INF()) by {
                                if grm.prods()[p][j] is Rule { assert(D0_[grm.prods()[p][j]->Rule_0.0 as int]); }
                            }
                            lemma_psum_frame(grm, tc, C0_, costs@, p, n);
                        }
                        let pw = ps_@[wc_].0 as int;
                        assert forall|j: int| 0 <= j < grm.prods()[pw].len() implies (#[trigger] grm.prods()[pw][j] matches Symbol::Rule(q) ==> costs@[q.0 as int] == C0_[q.0 as int]) by {
                            if grm.prods()[pw][j] is Rule { assert(D0_[grm.prods()[pw][j]->Rule_0.0 as int]); }
                        }
                        lemma_psum_frame(grm, tc, C0_, costs@, pw, grm.prods()[pw].len() as int);
                        assert(derives(grm, tc, i as int, high_cmplt as int, wch_ + 1));
                    }
                    assert(costs@ == C0_.update(i as int, high_cmplt) && done@ == D0_.update(i as int, true));
                    assert(lbw =~= W0_.update(i as int, lbw[i as int]));
                    assert(settled(grm, tc, costs@, done@, i as int));
                    assert(lb_ok(grm, tc, costs@, done@, lbw, i as int));
                    lemma_raise(grm, tc, C0_, costs@, D0_, done@, W0_, lbw, i as int);
                }
    //@end
    //@rule n=1 `^(\s*)costs\[i\] = hs;$` =>>
                let ghost (C0_, D0_, W0_) = (costs@, done@, lbw);
                costs[i] = hs;
                proof {
                    let w = if hs_cmplt is Some && hs_cmplt->Some_0 >= hs_noncmplt { wc_ } else { wn_ };
                    lbw = lbw.update(i as int, ps_@[w].0 as int);
                    assert(costs@ == C0_.update(i as int, hs));
                    lemma_psum_mono(grm, tc, C0_, costs@, ps_@[w].0 as int, grm.prods()[ps_@[w].0 as int].len() as int);
                    assert(prod_of(grm, i as int, ps_@[w].0 as int));
                    assert(done@ =~= D0_.update(i as int, done@[i as int]));
                    assert(settled(grm, tc, costs@, done@, i as int));
                    assert(lb_ok(grm, tc, costs@, done@, lbw, i as int));
                    lemma_raise(grm, tc, C0_, costs@, D0_, done@, W0_, lbw, i as int);
                }
    //@end
    //@rule n=1 `^(\s*)costs$` =>>
    proof {
        assert forall|i: int, c: int, h: nat| 0 <= i < grm.nrules() && costs@[i] != INF() && #[trigger] derives(grm, tc, i, c, h) implies c <= costs@[i] by {
            lemma_upper(grm, tc, costs@, done@, i, c, h);
        }
        assert forall|i: int| 0 <= i < grm.nrules() && #[trigger] costs@[i] != INF() implies exists|h: nat| derives(grm, tc, i, costs@[i] as int, h) by {
            assert(done@[i]);
            assert(derives(grm, tc, i, costs@[i] as int, hs[i]));
        }
    }
    costs
    //@end
    //@endbody
}
//@use prelude/tail.rs
