//@unit c19_files__pins props=C19 widths=u32
//@use prelude/head.rs
// the source files the property is anchored in, pinned whole (test modules, comments and layout apart): a change to anything in
// them that is neither under contract nor pinned by name still makes this unit undecided, which sends the check to the
// property's bounded sweep of the real code
//@pinfile file=cfgrammar/src/lib/newlinecache.rs sha=2a43dcdddc3cbcac
//@pinfile file=lrlex/src/lib/lexer.rs sha=fd89bb00760c980b
//@pinfile file=lrpar/src/lib/parser.rs sha=fb1aabfb1f1a4952
//@pinfile file=lrpar/src/lib/diagnostics.rs sha=57a404237fbb1862
//@use prelude/tail.rs
