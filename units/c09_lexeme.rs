//@unit c09_lexeme props=C09,C08,C05 widths=u32
//@use prelude/head.rs

// lrlex/src/lib/defaults.rs, impl Lexeme for DefaultLexeme: the lexeme the lexer makes and the parser, the repair replay
// and the actions read (stand-in `LexemeT` of prelude/lrpar.rs and `Lexeme::new_faulty` there).  The real bodies are
// verified against what that stand-in states: a lexeme made from (tok_id, start, len) has that token id and the span
// [start, start + len), and is faulty exactly when made by new_faulty.
#[derive(Clone, Copy)] pub struct Span { pub st: usize, pub en: usize }
impl Span {
    // span.rs (verified in unit c12_span)
    pub fn new(start: usize, end: usize) -> (r: Span) requires start <= end ensures r.st == start, r.en == end { Span { st: start, en: end } }
}
pub struct DefaultLexeme { pub start: usize, pub len: usize, pub faulty: bool, pub tok_id: $T }
impl DefaultLexeme {
    pub open spec fn made_from(&self, tok_id: $T, start: usize, len: usize, faulty: bool) -> bool { self.start == start && self.len == len && self.tok_id == tok_id && self.faulty == faulty }
    fn new(tok_id: $T, start: usize, len: usize) -> (r: DefaultLexeme)
        ensures r.made_from(tok_id, start, len, false), // OBL: C09.lexeme.new_keeps_token_start_and_length_and_is_not_faulty
    {
        //@probe
        //@body file=lrlex/src/lib/defaults.rs fn=new
        //@endbody
    }
    fn new_faulty(tok_id: $T, start: usize, len: usize) -> (r: DefaultLexeme)
        ensures r.made_from(tok_id, start, len, true), // OBL: C05.lexeme.new_faulty_keeps_token_start_and_length_and_is_faulty
    {
        //@probe
        //@body file=lrlex/src/lib/defaults.rs fn=new_faulty
        //@endbody
    }
    fn tok_id(&self) -> (r: $T) ensures r == self.tok_id, // OBL: C09.lexeme.tok_id_is_the_one_it_was_made_with
    {
        //@probe
        //@body file=lrlex/src/lib/defaults.rs fn=tok_id
        //@endbody
    }
    //@ctx DefaultLexeme::span: start + len does not exceed usize::MAX (a lexeme lies inside a text held in memory)
    fn span(&self) -> (r: Span)
        requires self.start + self.len <= usize::MAX,
        ensures r.st == self.start && r.en == self.start + self.len, // OBL: C08.lexeme.span_is_start_to_start_plus_length
    {
        //@probe
        //@body file=lrlex/src/lib/defaults.rs fn=span
        //@endbody
    }
    fn faulty(&self) -> (r: bool) ensures r == self.faulty, // OBL: C05.lexeme.faulty_is_the_flag_it_was_made_with
    {
        //@probe
        //@body file=lrlex/src/lib/defaults.rs fn=faulty
        //@endbody
    }
}
//@use prelude/tail.rs
