//@unit c19_cols props=C19 widths=u32
//@use prelude/head.rs

// ---- the text as a sequence of characters at char-boundary offsets (assumed model of &str) ----
#[verifier::external_body] pub struct Src { _x: usize }
impl Src {
    pub uninterp spec fn slen(&self) -> nat;
    pub uninterp spec fn is_boundary(&self, i: int) -> bool;
    pub uninterp spec fn ch(&self, i: int) -> char;       // the character starting at boundary i
    pub uninterp spec fn nxt(&self, i: int) -> int;       // the boundary after it
    // UTF-8 facts used: boundaries chain from 0 to len; '\r' and '\n' are one byte long
    #[verifier::opaque]
    pub open spec fn wf(&self) -> bool {
        &&& self.is_boundary(0) && self.is_boundary(self.slen() as int) && self.slen() <= isize::MAX
        &&& forall|i: int| 0 <= i < self.slen() && #[trigger] self.is_boundary(i) ==> i < self.nxt(i) <= self.slen() && self.is_boundary(self.nxt(i))
                && (forall|j: int| i < j < self.nxt(i) ==> !self.is_boundary(j))
        &&& forall|i: int| 0 <= i < self.slen() && self.is_boundary(i) && (#[trigger] self.ch(i) == '\r' || self.ch(i) == '\n') ==> self.nxt(i) == i + 1
    }
    pub proof fn lemma_ends(&self) requires self.wf() ensures self.is_boundary(0), self.is_boundary(self.slen() as int), self.slen() <= isize::MAX { reveal(Src::wf); }
    pub proof fn lemma_next(&self, i: int)
        requires self.wf(), 0 <= i < self.slen(), self.is_boundary(i)
        ensures i < self.nxt(i) <= self.slen(), self.is_boundary(self.nxt(i)), (self.ch(i) == '\r' || self.ch(i) == '\n') ==> self.nxt(i) == i + 1
    { reveal(Src::wf); }
    pub proof fn lemma_between(&self, i: int, j: int)
        requires self.wf(), 0 <= i < self.slen(), self.is_boundary(i), i < j < self.nxt(i)
        ensures !self.is_boundary(j)
    { reveal(Src::wf); }
    #[verifier::external_body] pub fn len(&self) -> (r: usize) ensures r == self.slen() { unimplemented!() }
    // `src[a..]` panics unless a <= len and a is a char boundary
    #[verifier::external_body]
    pub fn char_at(&self, i: usize) -> (r: (char, usize))
        requires i < self.slen(), // OBLG: C19.slice_start_in_range
                 self.is_boundary(i as int), // OBLG: C19.slice_start_on_char_boundary
        ensures r.0 == self.ch(i as int), r.1 == self.nxt(i as int)
    { unimplemented!() }
    // `src[a..].chars().count()`
    #[verifier::external_body]
    pub fn count_chars_from(&self, a: usize) -> (r: usize)
        requires a <= self.slen(), // OBLG: C19.slice_start_in_range
                 self.is_boundary(a as int), // OBLG: C19.slice_start_on_char_boundary
        ensures r == nchars(self, a as int, self.slen() as int), r <= self.slen() - a
    { unimplemented!() }
}
pub open spec fn dist(from: int, to: int) -> nat { if to > from { (to - from) as nat } else { 0 } }
// number of characters in [from, to)
pub open spec fn nchars(s: &Src, from: int, to: int) -> nat
    decreases dist(from, to)
{ if from >= to { 0 } else if !(from < s.nxt(from)) { 0 } else { 1 + nchars(s, s.nxt(from), to) } }

// ---------------- specification (from the property text) ----------------
// a character counts towards the column unless it is the LF of a CR LF pair
pub open spec fn counted(s: &Src, ls: int, p: int) -> bool { !(s.ch(p) == '\n' && p > ls && s.ch(p - 1) == '\r' && s.is_boundary(p - 1)) }
// number of counted characters that start in [from, to)
pub open spec fn col_count(s: &Src, ls: int, from: int, to: int) -> nat
    decreases dist(from, to)
{ if from >= to { 0 } else if !(from < s.nxt(from)) { 0 } else { (if counted(s, ls, from) { 1nat } else { 0nat }) + col_count(s, ls, s.nxt(from), to) } }
// the characters starting in [from, nxt(p)) are those starting in [from, p) plus the one at p
pub proof fn lemma_col_snoc(s: &Src, ls: int, from: int, p: int)
    requires s.wf(), 0 <= from <= p < s.slen(), s.is_boundary(from), s.is_boundary(p)
    ensures col_count(s, ls, from, s.nxt(p)) == col_count(s, ls, from, p) + (if counted(s, ls, p) { 1nat } else { 0nat })
    decreases p - from
{
    s.lemma_next(from);
    s.lemma_next(p);
    if from < p {
        // the next boundary after `from` cannot jump over the boundary p
        assert(s.nxt(from) <= p) by { if s.nxt(from) > p { s.lemma_between(from, p); } }
        lemma_col_snoc(s, ls, s.nxt(from), p);
    } else {
        assert(col_count(s, ls, s.nxt(p), s.nxt(p)) == 0);
    }
}

pub struct NewlineCache { pub newlines: Vec<usize>, pub trailing_bytes: usize }
pub open spec fn sorted(s: Seq<usize>) -> bool { forall|i: int, j: int| 0 <= i < j < s.len() ==> s[i] < s[j] }
pub open spec fn line_of(nl: Seq<usize>, p: int, k: int) -> bool { 0 <= k < nl.len() && nl[k] <= p && (k + 1 < nl.len() ==> p < nl[k + 1]) }
impl NewlineCache {
    pub open spec fn wf(&self) -> bool {
        self.newlines@.len() > 0 && self.newlines@.len() <= usize::MAX && self.newlines@[0] == 0 && sorted(self.newlines@) && self.newlines@.last() + self.trailing_bytes <= usize::MAX
    }
    pub open spec fn total(&self) -> int { self.newlines@.last() + self.trailing_bytes }
    // what feed() establishes about the text: the table holds 0 and the offset just after every '\n'
    pub open spec fn describes(&self, s: &Src) -> bool {
        &&& s.slen() == self.total()
        &&& forall|k: int| 0 <= k < self.newlines@.len() ==> s.is_boundary(#[trigger] self.newlines@[k] as int)
        &&& forall|p: int| 0 <= p < s.slen() && s.is_boundary(p) && #[trigger] s.ch(p) == '\n' ==> exists|m: int| 0 < m < self.newlines@.len() && self.newlines@[m] == p + 1
    }
    // contracts proved in unit c19_queries
    #[verifier::external_body] fn feed_len(&self) -> (r: usize) requires self.wf() ensures r == self.total() { unimplemented!() }
    #[verifier::external_body]
    pub fn byte_to_line_num(&self, byte: usize) -> (r: Option<usize>)
        requires self.wf(),
        ensures byte > self.total() ==> r is None, byte <= self.total() ==> r is Some && line_of(self.newlines@, byte as int, r.unwrap() - 1)
    { unimplemented!() }
    #[verifier::external_body]
    fn line_num_to_byte(&self, line_num: usize) -> (r: Option<usize>)
        requires self.wf(),
        ensures (line_num == 0 || line_num > self.newlines@.len()) ==> r is None, (0 < line_num <= self.newlines@.len()) ==> r == Some(self.newlines@[line_num - 1])
    { unimplemented!() }

    //@ctx columns: `src` is the text that was fed (describes()); `byte` is a char boundary (the documented contract of byte_to_line_num_and_col_num: anything else may panic)
    pub fn byte_to_line_num_and_col_num(&self, src: &Src, byte: usize) -> (r: Option<(usize, usize)>)
        requires self.wf(), src.wf(), self.describes(src), src.is_boundary(byte as int),
        ensures
            byte > src.slen() ==> r is None, // OBL: C19.col.none_beyond_text
            byte <= src.slen() ==> r is Some && line_of(self.newlines@, byte as int, r.unwrap().0 - 1), // OBL: C19.col.line_is_one_plus_newlines_before
            byte < src.slen() ==> r is Some && r.unwrap().1 == col_count(src, self.newlines@[r.unwrap().0 - 1] as int, self.newlines@[r.unwrap().0 - 1] as int, src.nxt(byte as int)), // OBL: C19.col.column_counts_characters_since_line_start_crlf_once
            byte == src.slen() ==> r is Some && r.unwrap().1 == 1 + nchars(src, self.newlines@.last() as int, src.slen() as int), // OBL: C19.col.column_at_end_of_text
    {
        //@probe
        //@body file=cfgrammar/src/lib/newlinecache.rs fn=byte_to_line_num_and_col_num
        // dialect: `opt.map(|line_num| { BODY })` as the function's tail expression: a match whose Some arm is
        // BODY with `return X;` ↦ `return Some(X);` and the closure's value X ↦ `Some(X)`
        //@rule n=1 `^(\s*)self\.byte_to_line_num\(byte\)\.map\(\|line_num\| \{$` => `\1match self.byte_to_line_num(byte) { None => None, Some(line_num) => {`
        //@rule n=1 `^(\s*)return \(self\.newlines\.len\(\), src\[line_byte\.\.\]\.chars\(\)\.count\(\) \+ 1\);$` => `\1proof { src.lemma_ends(); }\n\1return Some((self.newlines.len(), src.count_chars_from(line_byte) + 1));`
        //@rule n=1 `^(\s*)\(line_num, column\)\n(\s*)\}\)\s*$` => `\1Some((line_num, column))\n\2} }`
        //@rule n=1 `let mut column = 0;` => `let mut column: usize = 0;`
        //@rule n=1 `let mut skip_char = None;` => `let mut skip_char: Option<char> = None;`
        //@rule n=1 `^(\s*)for \(c_off, c\) in src\[line_byte\.\.\]\.char_indices\(\) \{$` =>>
            // dialect: `for (c_off, c) in src[a..].char_indices()` as a walk over the char boundaries from a
            let ghost k = line_num - 1;
            let ghost ls = line_byte as int;
            let mut pos_: usize = line_byte;
            let ghost mut broke_ = false;
            while pos_ < src.len()
                invariant_except_break
                    !broke_, pos_ <= byte, // OBL: C19.col.scan_stops_at_the_offset
                    column == col_count(src, ls, ls, pos_ as int), // OBL: C19.col.column_counts_characters_since_line_start_crlf_once.scan
                    (skip_char is Some) == (pos_ > ls && src.is_boundary(pos_ - 1) && src.ch(pos_ - 1) == '\r'), // OBL: C19.col.lf_skipped_only_directly_after_cr
                    skip_char is Some ==> skip_char == Some('\n'), column <= pos_ - ls,
                invariant
                    src.wf(), self.wf(), self.describes(src), ls == line_byte, ls <= pos_ <= src.slen(), src.is_boundary(pos_ as int), src.is_boundary(ls), src.is_boundary(byte as int),
                    byte < src.slen(), ls <= byte, 0 <= k < self.newlines@.len(), self.newlines@[k] == ls, line_of(self.newlines@, byte as int, k),
                ensures broke_ && column == col_count(src, ls, ls, src.nxt(byte as int)),
                decreases src.slen() - pos_,
            {
                //@probe
                let (c, nxt_) = src.char_at(pos_);
                let c_off = pos_ - line_byte;
                proof {
                    lemma_col_snoc(src, ls, ls, pos_ as int);
                    // no newline strictly inside the line
                    if pos_ < byte && c == '\n' {
                        let m = choose|m: int| 0 < m < self.newlines@.len() && self.newlines@[m] == pos_ + 1;
                        if m <= k { } else if m == k + 1 { } else { assert(self.newlines@[k + 1] < self.newlines@[m]); }
                    }
                    // the next boundary cannot jump over `byte`
                    src.lemma_next(pos_ as int);
                    if pos_ < byte { assert(nxt_ <= byte) by { if nxt_ > byte { src.lemma_between(pos_ as int, byte as int); } } }
                }
        //@end
        //@rule n=1 `^(\s*)if c_off == byte - line_byte \{\n(\s*)break;\n(\s*)\}` =>>
                if c_off == byte - line_byte {
                    proof { broke_ = true; }
                    break;
                }
                proof {
                    // position nxt_ - 1 holds a CR exactly if this character was one
                    if c != '\r' && src.is_boundary(nxt_ - 1) && nxt_ - 1 != pos_ { src.lemma_between(pos_ as int, nxt_ - 1); }
                }
                pos_ = nxt_;
        //@end
        //@endbody
    }
}
//@use prelude/tail.rs
