//@unit c04_next props=C04,C08,C07 widths=u32
//@use prelude/head.rs
//@use prelude/lrpar.rs

// lrpar/src/lib/parser.rs: next_lexeme and next_tidx, the lookahead of every LR step.  Decides for C04/C08: inside the
// input the lookahead is the lexeme at that position; at its end it is a zero-length end-of-input lexeme placed where the
// last real lexeme ends (at 0 for an empty input), with the grammar's end-of-input token; the two functions agree.
#[verifier::external_body] pub struct Grm { _x: usize }
impl Grm { pub uninterp spec fn seof(&self) -> TIdx<$T>; #[verifier::external_body] pub fn eof_token_idx(&self) -> (r: TIdx<$T>) ensures r == self.seof() { unimplemented!() } }
pub struct Parser { pub grm: Grm, pub lexemes: Vec<LexemeT> }

//@ctx next_lexeme / next_tidx: called with laidx <= number of lexemes (the LR loops stop at Accept / Error on the end-of-input lookahead and never look further)
impl Parser {
    fn next_lexeme(&self, laidx: usize) -> (r: LexemeT)
        requires laidx <= self.lexemes@.len(), // OBLG: C04.next.lookahead_position_within_the_input
        ensures laidx < self.lexemes@.len() ==> r == self.lexemes@[laidx as int], // OBL: C04.next.inside_the_input_the_lookahead_is_the_lexeme_there C08.next.inside_the_input_the_lookahead_is_the_lexeme_there
            laidx == self.lexemes@.len() ==> r.stok() == self.grm.seof().0 && r.sfaulty() && r.sspan().en == r.sspan().st
                && r.sspan().st == (if laidx == 0 { 0 } else { self.lexemes@[laidx - 1].sspan().en }), // OBL: C04.next.end_of_input_lexeme_is_zero_length_where_the_last_lexeme_ends C08.next.end_of_input_lexeme_is_zero_length_where_the_last_lexeme_ends
    {
        //@probe
        //@body file=lrpar/src/lib/parser.rs fn=next_lexeme
        //@rule n=1 `\$T::from\(u32::from\(self\.grm\.eof_token_idx\(\)\)\)\.unwrap\(\)` => `tok_id_of(self.grm.eof_token_idx())`
        //@endbody
    }

    fn next_tidx(&self, laidx: usize) -> (r: TIdx<$T>)
        requires laidx <= self.lexemes@.len(), // OBLG: C04.next.lookahead_position_within_the_input
        ensures laidx < self.lexemes@.len() ==> r.0 == self.lexemes@[laidx as int].stok(), // OBL: C04.next.lookahead_token_is_the_token_of_the_lookahead_lexeme C07.next.lookahead_token_is_the_token_of_the_lookahead_lexeme
            laidx == self.lexemes@.len() ==> r == self.grm.seof(),
    {
        //@probe
        //@body file=lrpar/src/lib/parser.rs fn=next_tidx
        //@endbody
    }
}
//@use prelude/tail.rs
