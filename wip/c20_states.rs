//@unit c20_states props=C20,C16 widths=u8,u16,u32
//@use prelude/head.rs

// The state-count guards of lrtable: the tail of pager_stategraph (after the garbage collection the
// state numbers, held as usize so far, are narrowed to StorageT), StateGraph::new and
// StateGraph::all_states_len.  Decides for C20: a graph is only built when every state number and the
// state count itself fit StorageT (nothing wraps), otherwise construction is refused with the
// documented panic; the narrowed start state and edge targets are the numbers gc returned.
impl StIdx<usize> { pub fn as_storaget(&self) -> (r: usize) ensures r == self.0 { self.0 } }
#[verifier::external_body] pub struct ZState { _x: usize }      // (core Itemset, closed Itemset)
// HashMap<Symbol, StIdx<usize>>; `for (k, v) in x` hands out each entry once, in an unspecified order
#[verifier::external_body] pub struct EdgeMapU { _x: usize }
impl EdgeMapU {
    pub uninterp spec fn m(&self) -> Map<Symbol<$T>, usize>;
    #[verifier::external_body] pub fn len(&self) -> (r: usize) { unimplemented!() }
    #[verifier::external_body]
    pub fn entries(&self) -> (r: Vec<(Symbol<$T>, StIdx<usize>)>)
        ensures forall|e: int| 0 <= e < r@.len() ==> self.m().contains_key((#[trigger] r@[e]).0) && self.m()[r@[e].0] == r@[e].1.0,
            forall|k: Symbol<$T>| self.m().contains_key(k) ==> exists|e: int| 0 <= e < r@.len() && (#[trigger] r@[e]).0 == k,
    { unimplemented!() }
}
// HashMap<Symbol, StIdx<StorageT>>
#[verifier::external_body] pub struct EdgeMapT { _x: usize }
impl EdgeMapT {
    pub uninterp spec fn m(&self) -> Map<Symbol<$T>, $T>;
    #[verifier::external_body] pub fn with_capacity(n: usize) -> (r: EdgeMapT) ensures r.m() =~= Map::<Symbol<$T>, $T>::empty() { unimplemented!() }
    #[verifier::external_body] pub fn insert(&mut self, k: Symbol<$T>, v: StIdx<$T>) ensures final(self).m() == old(self).m().insert(k, v.0) { unimplemented!() }
}
#[verifier::external_body]
pub fn take_edges(edges: &Vec<EdgeMapU>, i: usize) -> (r: &EdgeMapU) requires i < edges@.len() ensures *r == edges@[i as int] { unimplemented!() }

pub struct StateGraph { pub states: Vec<ZState>, pub start_state: StIdx<$T>, pub edges: Vec<EdgeMapT> }
impl StateGraph {
    // the invariant the constructor establishes and every `x.as_()` on a state number relies on
    pub open spec fn wf(&self) -> bool { self.states@.len() <= $TMAX }

    //@ctx new: `num_traits::cast(StorageT::max_value()).unwrap()` is StorageT::MAX as a usize (dialect rule 2)
    pub fn new(states: Vec<ZState>, start_state: StIdx<$T>, edges: Vec<EdgeMapT>) -> (r: StateGraph)
        ensures
            r.wf(), // OBL: C20.states.a_graph_is_only_built_when_the_state_count_fits
            r.states@ == states@ && r.start_state == start_state && r.edges@ == edges@, // OBL: C20.states.constructor_stores_what_it_is_given
    {
        //@probe
        //@body file=lrtable/src/lib/stategraph.rs fn=new
        //@endbody
    }

    pub fn all_states_len(&self) -> (r: StIdx<$T>)
        requires self.wf(),
        ensures r.0 as int == self.states@.len(), // OBL: C20.states.reported_state_count_is_the_real_count C16.states.reported_state_count_is_the_real_count
    {
        //@probe
        //@body file=lrtable/src/lib/stategraph.rs fn=all_states_len
        //@endbody
    }
}

pub open spec fn edges_narrowed(U: Seq<EdgeMapU>, T: Seq<EdgeMapT>, n: int) -> bool {
    forall|i: int| 0 <= i < n ==> (#[trigger] T[i]).m().dom() =~= U[i].m().dom() && forall|k: Symbol<$T>| U[i].m().contains_key(k) ==> #[trigger] T[i].m()[k] as int == U[i].m()[k]
}

//@ctx pager_tail: gc returned one edge map per state, the start state and every edge target are numbers of returned states (c16_gc proves this of gc's result)
fn pager_tail(gc_states: Vec<ZState>, start_state: StIdx<usize>, gc_edges: Vec<EdgeMapU>) -> (r: StateGraph)
    requires
        gc_edges@.len() == gc_states@.len(), start_state.0 < gc_states@.len(),
        forall|i: int, k: Symbol<$T>| 0 <= i < gc_edges@.len() && #[trigger] gc_edges@[i].m().contains_key(k) ==> gc_edges@[i].m()[k] < gc_states@.len(),
    ensures
        r.wf() && r.states@ == gc_states@, // OBL: C20.states.every_state_of_the_collected_graph_is_kept_or_the_build_is_refused
        r.start_state.0 as int == start_state.0, // OBL: C20.states.start_state_number_survives_the_narrowing
        r.edges@.len() == gc_edges@.len() && edges_narrowed(gc_edges@, r.edges@, gc_edges@.len() as int), // OBL: C20.states.edge_targets_survive_the_narrowing C16.states.edge_targets_survive_the_narrowing
{
    //@probe
    //@body file=lrtable/src/lib/pager.rs fn=pager_stategraph block=`^\s*let \(gc_states, gc_edges\) = gc\($` end=`^\s*StateGraph::new\(gc_states, start_state, gc_edges_storaget\)$`
    //@cut n=1 `let \(gc_states, gc_edges\) = gc\(` =>>
    //@end
    //@rule n=1 `^(\s*)let mut gc_edges_storaget = Vec::with_capacity\(gc_edges\.len\(\)\);$` => `\1let mut gc_edges_storaget: Vec<EdgeMapT> = Vec::with_capacity(gc_edges.len());`
    //@rule n=1 `^(\s*)for x in gc_edges \{$` =>>
    for xi_ in 0..gc_edges.len()
        invariant
            gc_edges@.len() == gc_states@.len(), gc_states@.len() <= $TMAX,
            forall|i: int, k: Symbol<$T>| 0 <= i < gc_edges@.len() && #[trigger] gc_edges@[i].m().contains_key(k) ==> gc_edges@[i].m()[k] < gc_states@.len(),
            gc_edges_storaget@.len() == xi_,
            edges_narrowed(gc_edges@, gc_edges_storaget@, xi_ as int), // OBL: C20.states.edge_targets_survive_the_narrowing.maps_done
    {
        //@probe
        // dialect rule 5: `for x in gc_edges` hands the maps out in order
        let x = take_edges(&gc_edges, xi_);
    //@end
    //@rule n=1 `^(\s*)let mut m = HashMap::with_capacity\(x\.len\(\)\);$` => `\1let mut m = EdgeMapT::with_capacity(x.len());`
    //@rule n=1 `^(\s*)for \(k, v\) in x \{$` =>>
        let es_ = x.entries();
        for ei_ in 0..es_.len()
            invariant
                gc_edges@.len() == gc_states@.len(), gc_states@.len() <= $TMAX, xi_ < gc_edges@.len(), *x == gc_edges@[xi_ as int],
                forall|k: Symbol<$T>| #[trigger] x.m().contains_key(k) ==> x.m()[k] < gc_states@.len(),
                forall|e: int| 0 <= e < es_@.len() ==> x.m().contains_key((#[trigger] es_@[e]).0) && x.m()[es_@[e].0] == es_@[e].1.0,
                forall|k: Symbol<$T>| m.m().contains_key(k) <==> exists|e: int| 0 <= e < ei_ && (#[trigger] es_@[e]).0 == k,
                forall|k: Symbol<$T>| m.m().contains_key(k) ==> #[trigger] m.m()[k] as int == x.m()[k], // OBL: C20.states.edge_targets_survive_the_narrowing.entries_done
        {
            //@probe
            // dialect rule 5: `for (k, v) in x` (HashMap order arbitrary)
            let (k, v) = es_[ei_];
    //@end
    //@rule n=1 `^(\s*)gc_edges_storaget\.push\(m\);$` => `\1proof { assert(m.m().dom() =~= x.m().dom()); }\n\1gc_edges_storaget.push(m);`
    //@endbody
}
//@use prelude/tail.rs
