//@unit c08_tree props=C08 widths=u32
//@use prelude/head.rs
//@use prelude/lrpar.rs

// lrpar/src/lib/parser.rs: the two built-in actions, action_generictree (YaccOriginalActionKind::GenericParseTree)
// and action_map (parse_map).  Decides for C08: the node an action builds for a reduction has exactly the children
// handed to it, in order - a lexeme becomes a terminal, a value built by an earlier action is kept as it is.
pub enum Node { Term { lexeme: LexemeT }, Nonterm { ridx: RIdx<$T>, nodes: Vec<Node> } }
pub enum AStackType<A> { ActionType(A), Lexeme(LexemeT) }
// `astack: vec::Drain<..>`: the values popped for this reduction, in stack order (dialect rule 5: handed over as a vector)
pub open spec fn conv_tree(a: AStackType<Node>) -> Node { match a { AStackType::ActionType(n) => n, AStackType::Lexeme(lexeme) => Node::Term { lexeme } } }

fn action_generictree(ridx: RIdx<$T>, _span: Span, astack: Vec<AStackType<Node>>) -> (r: Node)
    ensures r matches Node::Nonterm { ridx: r_, nodes } && r_ == ridx && nodes@.len() == astack@.len()
        && forall|k: int| 0 <= k < astack@.len() ==> #[trigger] nodes@[k] == conv_tree(astack@[k]), // OBL: C08.tree.node_has_exactly_the_children_of_the_reduction_in_order
{
    //@probe
    //@body file=lrpar/src/lib/parser.rs fn=action_generictree
    //@rule n=1 `let mut nodes = Vec::with_capacity\(astack\.len\(\)\);` => `let mut nodes: Vec<Node> = Vec::with_capacity(astack.len()); let ghost a0 = astack@; let mut astack = astack; let ghost mut taken_: int = 0;`
    //@rule n=1 `^(\s*)for a in astack \{$` =>>
    while astack.len() > 0
        invariant taken_ + astack@.len() == a0.len(), nodes@.len() == taken_,
            forall|k: int| 0 <= k < astack@.len() ==> #[trigger] astack@[k] == a0[taken_ + k],
            forall|k: int| 0 <= k < taken_ ==> #[trigger] nodes@[k] == conv_tree(a0[k]),
        decreases astack@.len(),
    {
        //@probe
        // dialect rule 5: `for a in <drain>` takes the values from the front, one by one
        let a = astack.remove(0);
        proof { taken_ = taken_ + 1; }
    //@end
    //@endbody
}

// parse_map: the user's two functions (dyn Fn) as uninterpreted functions of their arguments
pub struct UNode { pub _x: usize }
pub uninterp spec fn fterm_spec(l: LexemeT) -> UNode;
pub uninterp spec fn fnonterm_spec(r: RIdx<$T>, ns: Seq<UNode>) -> UNode;
#[verifier::external_body] pub fn fterm(l: LexemeT) -> (r: UNode) ensures r == fterm_spec(l) { unimplemented!() }
#[verifier::external_body] pub fn fnonterm(r: RIdx<$T>, ns: Vec<UNode>) -> (o: UNode) ensures o == fnonterm_spec(r, ns@) { unimplemented!() }
pub open spec fn conv_map(a: AStackType<UNode>) -> UNode { match a { AStackType::ActionType(n) => n, AStackType::Lexeme(lexeme) => fterm_spec(lexeme) } }

fn action_map(ridx: RIdx<$T>, _span: Span, astack: Vec<AStackType<UNode>>) -> (r: UNode)
    ensures exists|ns: Seq<UNode>| r == fnonterm_spec(ridx, ns) && ns.len() == astack@.len()
        && forall|k: int| 0 <= k < astack@.len() ==> #[trigger] ns[k] == conv_map(astack@[k]), // OBL: C08.tree.mapped_node_gets_exactly_the_children_of_the_reduction_in_order
{
    //@probe
    //@body file=lrpar/src/lib/parser.rs fn=action_map
    //@rule n=1 `let \(fterm, fnonterm\) = param;` => ``
    //@rule n=1 `let mut nodes = Vec::with_capacity\(astack\.len\(\)\);` => `let mut nodes: Vec<UNode> = Vec::with_capacity(astack.len()); let ghost a0 = astack@; let mut astack = astack; let ghost mut taken_: int = 0;`
    //@rule n=1 `^(\s*)for a in astack \{$` =>>
    while astack.len() > 0
        invariant taken_ + astack@.len() == a0.len(), nodes@.len() == taken_,
            forall|k: int| 0 <= k < astack@.len() ==> #[trigger] astack@[k] == a0[taken_ + k],
            forall|k: int| 0 <= k < taken_ ==> #[trigger] nodes@[k] == conv_map(a0[k]),
        decreases astack@.len(),
    {
        //@probe
        let a = astack.remove(0);
        proof { taken_ = taken_ + 1; }
    //@end
    //@endbody
}
//@use prelude/tail.rs
