//@unit c10_prods props=C10 widths=u32
//@use prelude/head.rs

// The constructor of YaccGrammar (cfgrammar/src/lib/yacc/grammar.rs, new_from_ast_with_validity_info): the block
// that turns the symbols of one AST production into the grammar's production.  Decides for C10: a production of the
// grammar has exactly the source's symbols, in order, each name replaced by its index (and, in Eco grammars with
// implicit tokens, the implicit rule after every token), every index in range.
#[verifier::external_body] pub struct Name { _x: usize }
impl Name { pub uninterp spec fn id(&self) -> int; }
#[derive(Clone, Copy)] pub struct Span { pub st: usize, pub en: usize }
pub enum AstSymbol { Rule(Name, Span), Token(Name, Span) }
#[verifier::external_body] pub struct RuleMap { _x: usize }        // HashMap<String, RIdx>
impl RuleMap {
    pub uninterp spec fn has(&self, k: int) -> bool;
    pub uninterp spec fn sidx(&self, k: int) -> RIdx<$T>;
    pub uninterp spec fn bound(&self) -> nat;      // every value is a rule index below this
    // `map[&k]` panics when the key is missing
    #[verifier::external_body]
    pub fn idx(&self, k: &Name) -> (r: RIdx<$T>)
        requires self.has(k.id()), // OBLG: C10.prods.rule_name_is_registered
        ensures r == self.sidx(k.id()), (r.0 as nat) < self.bound()
    { unimplemented!() }
}
#[verifier::external_body] pub struct TokMap { _x: usize }         // HashMap<String, TIdx>
impl TokMap {
    pub uninterp spec fn has(&self, k: int) -> bool;
    pub uninterp spec fn sidx(&self, k: int) -> TIdx<$T>;
    pub uninterp spec fn bound(&self) -> nat;
    #[verifier::external_body]
    pub fn idx(&self, k: &Name) -> (r: TIdx<$T>)
        requires self.has(k.id()), // OBLG: C10.prods.token_name_is_registered
        ensures r == self.sidx(k.id()), (r.0 as nat) < self.bound()
    { unimplemented!() }
}
pub struct AstProduction { pub symbols: Vec<AstSymbol> }

// ---------------- specification (from the property text) ----------------
// the grammar symbols one AST symbol stands for
pub open spec fn image(s: AstSymbol, rm: &RuleMap, tm: &TokMap, implicit: Option<int>) -> Seq<Symbol<$T>> {
    match s {
        AstSymbol::Rule(n, _) => seq![Symbol::Rule(rm.sidx(n.id()))],
        AstSymbol::Token(n, _) => match implicit {
            Some(ir) => seq![Symbol::Token(tm.sidx(n.id())), Symbol::Rule(rm.sidx(ir))],
            None => seq![Symbol::Token(tm.sidx(n.id()))],
        },
    }
}
pub open spec fn images(syms: Seq<AstSymbol>, k: int, rm: &RuleMap, tm: &TokMap, implicit: Option<int>) -> Seq<Symbol<$T>>
    decreases k
{
    if k <= 0 { Seq::empty() } else { images(syms, k - 1, rm, tm, implicit) + image(syms[k - 1], rm, tm, implicit) }
}
pub open spec fn sym_in_range(s: Symbol<$T>, nr: nat, nt: nat) -> bool { match s { Symbol::Rule(r) => (r.0 as nat) < nr, Symbol::Token(t) => (t.0 as nat) < nt } }
// the names a validated AST may mention are registered (ast.rs complete_and_validate rejects unknown rules and tokens)
pub open spec fn names_known(syms: Seq<AstSymbol>, rm: &RuleMap, tm: &TokMap) -> bool {
    forall|j: int| 0 <= j < syms.len() ==> match #[trigger] syms[j] { AstSymbol::Rule(n, _) => rm.has(n.id()), AstSymbol::Token(n, _) => tm.has(n.id()) }
}

//@ctx prod_symbols: the AST is valid: every rule and token a production mentions is registered in rule_map / token_map, and so is the implicit rule when there is one (the constructor registers it itself)
fn prod_symbols(astprod: &AstProduction, rule_map: &RuleMap, token_map: &TokMap, implicit_rule: Option<Name>) -> (prod: Vec<Symbol<$T>>)
    requires names_known(astprod.symbols@, rule_map, token_map), implicit_rule matches Some(n) ==> rule_map.has(n.id()),
    ensures
        prod@ == images(astprod.symbols@, astprod.symbols@.len() as int, rule_map, token_map, if implicit_rule is Some { Some(implicit_rule->Some_0.id()) } else { None }), // OBL: C10.prods.production_has_exactly_the_sources_symbols_in_order
        forall|j: int| 0 <= j < prod@.len() ==> sym_in_range(#[trigger] prod@[j], rule_map.bound(), token_map.bound()), // OBL: C10.prods.every_symbol_index_is_in_range
{
    //@probe
    let ghost imp = if implicit_rule is Some { Some(implicit_rule->Some_0.id()) } else { None };
    //@body file=cfgrammar/src/lib/yacc/grammar.rs fn=new_from_ast_with_validity_info block=`let mut prod = Vec::with_capacity\(astprod\.symbols\.len\(\)\);` endx=`^\s*let mut prec = None;$`
    //@rule n=1 `let mut prod = Vec::with_capacity\(astprod\.symbols\.len\(\)\);` => `let mut prod: Vec<Symbol<$T>> = Vec::with_capacity(astprod.symbols.len());`
    //@rule n=* `ast::Symbol::` => `AstSymbol::`
    //@rule n=* `rule_map\[(\w+)\]` => `rule_map.idx(\1)`
    //@rule n=* `token_map\[(\w+)\]` => `token_map.idx(\1)`
    //@atend n=1 `^(\s*)for astsym in &astprod\.symbols \{$` =>>
        proof {
            assert(prod@ =~= before_ + image(astprod.symbols@[si_ as int], rule_map, token_map, imp)); // OBL: C10.prods.each_source_symbol_contributes_exactly_its_image
        }
    //@end
    //@rule n=1 `^(\s*)for astsym in &astprod\.symbols \{$` =>>
    for si_ in 0..astprod.symbols.len()
        invariant names_known(astprod.symbols@, rule_map, token_map), implicit_rule matches Some(n) ==> rule_map.has(n.id()),
            imp == (if implicit_rule is Some { Some(implicit_rule->Some_0.id()) } else { None::<int> }),
            prod@ == images(astprod.symbols@, si_ as int, rule_map, token_map, imp), // OBL: C10.prods.symbols_so_far_are_the_images_of_the_sources_symbols
            forall|j: int| 0 <= j < prod@.len() ==> sym_in_range(#[trigger] prod@[j], rule_map.bound(), token_map.bound()),
    {
        //@probe
        let astsym = &astprod.symbols[si_];
        let ghost before_ = prod@;
    //@end
    //@endbody
    prod
}
//@use prelude/tail.rs
