//@unit c05_cactus props=C05,C06,C07 widths=u32
//@use prelude/head.rs
//@use prelude/lrpar.rs

// lrpar/src/lib/parser.rs: lr_cactus, plain LR parsing on a cactus stack, with which the CPCT+ search tries inserts and
// shifts (unit c06_moves uses the contract proved here).  Partial correctness: the position only moves forward by
// shifts and never passes `end_laidx`; the stack is never empty; parsing stops before `end_laidx` only in a state
// whose cell for the lookahead at that position is Error or Accept; a lexeme given as prefix is the lookahead of the
// one step the caller asks for; the tree stack, when there is one, stays one shorter than the parse stack.
#[derive(Clone, Copy, PartialEq, Eq)] pub enum ActionK { Shift(StIdx<$T>), Reduce(PIdx<$T>), Accept, Error }
pub struct Action {}
#[verifier::external_body] pub struct STable { _x: usize }
impl STable {
    pub uninterp spec fn sact(&self, st: StIdx<$T>, t: TIdx<$T>) -> ActionK;
    #[verifier::external_body] pub fn action(&self, st: StIdx<$T>, t: TIdx<$T>) -> (r: ActionK) ensures r == self.sact(st, t) { unimplemented!() }
    #[verifier::external_body] pub fn goto(&self, st: StIdx<$T>, r: RIdx<$T>) -> (o: Option<StIdx<$T>>) { unimplemented!() }
}
#[verifier::external_body] pub struct Grm { _x: usize }
impl Grm {
    pub uninterp spec fn splen(&self, p: PIdx<$T>) -> nat;
    #[verifier::external_body] pub fn eof_token_idx(&self) -> (r: TIdx<$T>) { unimplemented!() }
    #[verifier::external_body] pub fn prod_to_rule(&self, p: PIdx<$T>) -> (r: RIdx<$T>) { unimplemented!() }
    // `self.grm.prod(pidx).len()`
    #[verifier::external_body] pub fn prod_len_usize(&self, p: PIdx<$T>) -> (r: usize) ensures r == self.splen(p) { unimplemented!() }
}
pub enum Node { Term { lexeme: LexemeT }, Nonterm { ridx: RIdx<$T>, nodes: Vec<Node> } }
// Cactus<StIdx>: an immutable stack that shares its tail
#[verifier::external_body] pub struct PStackC { _x: usize }
impl PStackC {
    pub uninterp spec fn s(&self) -> Seq<StIdx<$T>>;
    #[verifier::external_body] pub fn len(&self) -> (r: usize) ensures r == self.s().len() { unimplemented!() }
    // `*pstack.val().unwrap()`
    #[verifier::external_body] pub fn top(&self) -> (r: StIdx<$T>)
        requires self.s().len() > 0, // OBLG: C07.cactus.parse_stack_never_empty
        ensures r == self.s().last()
    { unimplemented!() }
    // `pstack.parent().unwrap()`
    #[verifier::external_body] pub fn parent_unwrap(&self) -> (r: PStackC)
        requires self.s().len() > 0, // OBLG: C07.cactus.pop_from_a_non_empty_stack
        ensures r.s() == self.s().drop_last()
    { unimplemented!() }
    #[verifier::external_body] pub fn child(&self, x: StIdx<$T>) -> (r: PStackC) ensures r.s() == self.s().push(x) { unimplemented!() }
}
// `tstack_uw.drain(from..).collect::<Vec<_>>()`: panics when `from` is beyond the end
#[verifier::external_body]
pub fn drain_from(v: &mut Vec<Node>, from: usize) -> (r: Vec<Node>)
    requires from <= old(v)@.len(), // OBLG: C07.cactus.tree_stack_holds_the_nodes_to_take
    ensures final(v)@ == old(v)@.subrange(0, from as int), r@ == old(v)@.subrange(from as int, old(v)@.len() as int),
{ unimplemented!() }
// panics whose unreachability is LR theory about the table (C01 territory): assumed
#[verifier::external_body] pub fn assume_lr(b: bool) ensures b { unimplemented!() }
pub struct Parser { pub grm: Grm, pub stable: STable }
impl Parser {
    pub uninterp spec fn snext(&self, laidx: int) -> LexemeT;
    pub uninterp spec fn snext_tidx(&self, laidx: int) -> TIdx<$T>;
    #[verifier::external_body] pub fn next_lexeme(&self, laidx: usize) -> (r: LexemeT) ensures r == self.snext(laidx as int) { unimplemented!() }
    #[verifier::external_body] pub fn next_tidx(&self, laidx: usize) -> (r: TIdx<$T>) ensures r == self.snext_tidx(laidx as int) { unimplemented!() }
}
// the lookahead lr_cactus uses at position la
pub open spec fn la_at(p: &Parser, prefix: Option<LexemeT>, la: int) -> TIdx<$T> { if prefix is Some { TIdx(prefix->Some_0.stok()) } else { p.snext_tidx(la) } }

//@ctx lr_cactus: entered with a non-empty stack, laidx <= end_laidx < usize::MAX, and (when a tree stack is given) one tree per state above the bottom one
//@ctx lr_cactus: three facts of LR theory are assumed where the code would otherwise panic: a reduction finds its production's states (and trees) on the stack, its goto exists, Accept comes with a single tree under the end-of-input lookahead
//@undecided lr_cactus: termination (consecutive reductions under one lookahead; see the recorded finding C07.lr.every_parse_returns)
impl Parser {
    #[verifier::exec_allows_no_decreases_clause]
    fn lr_cactus(&self, lexeme_prefix: Option<LexemeT>, laidx0: usize, end_laidx: usize, pstack0: PStackC, tstack: &mut Option<Vec<Node>>) -> (r: (usize, PStackC))
        requires pstack0.s().len() > 0, laidx0 <= end_laidx, end_laidx < usize::MAX,
            lexeme_prefix is Some ==> end_laidx == laidx0 + 1, // OBLG: C05.cactus.a_prefix_lexeme_is_for_exactly_one_step
            *old(tstack) matches Some(t) ==> t@.len() + 1 == pstack0.s().len(),
        ensures
            laidx0 <= r.0 <= end_laidx, // OBL: C05.cactus.position_moves_forward_and_never_passes_the_end C07.cactus.position_moves_forward_and_never_passes_the_end C06.cactus.position_moves_forward_and_never_passes_the_end
            r.1.s().len() > 0, // OBL: C07.cactus.stack_never_empty
            exists|from: Seq<StIdx<$T>>| from.len() == r.0 - laidx0 && forall|k: int| 0 <= k < from.len() ==> self.stable.sact(#[trigger] from[k], la_at(self, lexeme_prefix, laidx0 + k)) is Shift, // OBL: C05.cactus.a_lexeme_is_only_passed_by_a_shift C06.cactus.a_lexeme_is_only_passed_by_a_shift
            r.0 < end_laidx ==> ({ let a = self.stable.sact(r.1.s().last(), la_at(self, lexeme_prefix, r.0 as int)); a == ActionK::Error || a == ActionK::Accept }), // OBL: C05.cactus.stops_early_only_on_an_error_or_accept_cell
            (*final(tstack) is Some) == (*old(tstack) is Some),
            *final(tstack) matches Some(t) ==> t@.len() + 1 == r.1.s().len(), // OBL: C05.cactus.one_tree_per_state_above_the_bottom
    {
        //@probe
        let mut laidx = laidx0;
        let mut pstack = pstack0;
        let ghost mut from_: Seq<StIdx<$T>> = Seq::empty();   // the states in which the lexemes passed so far were shifted
        //@body file=lrpar/src/lib/parser.rs fn=lr_cactus
        //@rule n=1 `^(\s*)\{ let assert_cond_ = lexeme_prefix\.is_none\(\) \|\| end_laidx == laidx \+ 1; assert\(assert_cond_\); \}$` => `\1{ let assert_cond_ = lexeme_prefix.is_none() || end_laidx == laidx + 1; assert(assert_cond_); }`
        //@rule n=* `\*pstack\.val\(\)\.unwrap\(\)` => `pstack.top()`
        //@rule n=* `pstack\.parent\(\)\.unwrap\(\)` => `pstack.parent_unwrap()`
        //@rule n=* `\bAction::(Reduce|Shift|Accept|Error)\b` => `ActionK::\1`
        //@rule n=1 `let pop_num = self\.grm\.prod\(pidx\)\.len\(\);` => `let pop_num = self.grm.prod_len_usize(pidx); assume_lr(pop_num < pstack.len());`
        //@rule n=1 `let nodes = tstack_uw\s*\.drain\(pstack\.len\(\) - pop_num - 1\.\.\)\s*\.collect::<Vec<Node<LexerTypesT::LexemeT, \$T>>>\(\);` => `let nodes = drain_from(tstack_uw, pstack.len() - pop_num - 1);`
        //@rule n=1 `pstack = pstack\.child\(self\.stable\.goto\(prior, ridx\)\.unwrap\(\)\);` => `let goto_ = self.stable.goto(prior, ridx); assume_lr(goto_.is_some()); pstack = pstack.child(goto_.unwrap());`
        //@rule n=1 `debug_assert_eq!\(la_tidx, self\.grm\.eof_token_idx\(\)\);` => `let eof_ = self.grm.eof_token_idx(); assume_lr(la_tidx.0 == eof_.0);`
        //@rule n=1 `debug_assert_eq!\(tstack_uw\.len\(\), 1\);` => `assume_lr(tstack_uw.len() == 1);`
        //@rule n=* `^(\s*)laidx \+= 1;$` => `\1laidx += 1; proof { from_ = from_.push(stidx); }`
        //@rule n=1 `^(\s*)for _ in 0\.\.pop_num \{$` =>>
                    let ghost s_before_ = pstack.s();
                    for pi_ in 0..pop_num
                        invariant pop_num < s_before_.len(), pstack.s() == s_before_.subrange(0, s_before_.len() - pi_),
                    {
        //@end
        //@rule n=1 `^(\s*)while laidx != end_laidx \{$` =>>
        while laidx != end_laidx
            invariant_except_break
                laidx0 <= laidx <= end_laidx, end_laidx < usize::MAX, pstack.s().len() > 0,
                from_.len() == laidx - laidx0, forall|k: int| 0 <= k < from_.len() ==> self.stable.sact(#[trigger] from_[k], la_at(self, lexeme_prefix, laidx0 + k)) is Shift, // OBL: C05.cactus.a_lexeme_is_only_passed_by_a_shift
                lexeme_prefix is Some ==> end_laidx == laidx0 + 1,
                (*tstack is Some) == (*old(tstack) is Some),
                *tstack matches Some(t) ==> t@.len() + 1 == pstack.s().len(),
            ensures
                laidx0 <= laidx <= end_laidx, pstack.s().len() > 0,
                from_.len() == laidx - laidx0, forall|k: int| 0 <= k < from_.len() ==> self.stable.sact(#[trigger] from_[k], la_at(self, lexeme_prefix, laidx0 + k)) is Shift, // OBL: C05.cactus.a_lexeme_is_only_passed_by_a_shift
                laidx < end_laidx ==> ({ let a = self.stable.sact(pstack.s().last(), la_at(self, lexeme_prefix, laidx as int)); a == ActionK::Error || a == ActionK::Accept }),
                (*tstack is Some) == (*old(tstack) is Some),
                *tstack matches Some(t) ==> t@.len() + 1 == pstack.s().len(),
        {
            //@probe
        //@end
        //@endbody
    }
}
//@use prelude/tail.rs
