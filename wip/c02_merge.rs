//@unit c02_merge props=C02,C04 widths=u32
//@use prelude/head.rs

// lrtable/src/lib/pager.rs: vob_intersect (the block-wise intersection test that weak compatibility is
// built from) and weakly_merge (the union of lookaheads of two states with the same core).
// A Vob is modelled at the level of its storage blocks: 64-bit words, bit i in word i / 64 at
// position i % 64, the unused bits of the last word zero (documented guarantee of the vob crate).
pub open spec fn bit(w: u64, k: int) -> bool { 0 <= k < 64 && (w >> (k as u64)) & 1u64 == 1u64 }
#[verifier::external_body] pub struct Vob { _x: usize }
impl Vob {
    pub uninterp spec fn words(&self) -> Seq<u64>;
    pub uninterp spec fn nbits(&self) -> nat;
    pub open spec fn at(&self, i: int) -> bool { 0 <= i < self.nbits() && bit(self.words()[i / 64], i % 64) }
    pub open spec fn wf(&self) -> bool {
        &&& self.words().len() * 64 >= self.nbits() && self.words().len() * 64 < self.nbits() + 64
        &&& forall|w: int, k: int| 0 <= w < self.words().len() && 0 <= k < 64 && w * 64 + k >= self.nbits() ==> !#[trigger] bit(self.words()[w], k)
    }
    // dialect rule 5: `v.iter_storage()` hands the storage blocks out in order
    #[verifier::external_body] pub fn storage_len(&self) -> (r: usize) ensures r == self.words().len() { unimplemented!() }
    #[verifier::external_body] pub fn storage_at(&self, w: usize) -> (r: u64) requires w < self.words().len() ensures r == self.words()[w as int] { unimplemented!() }
    // Vob::or (vob crate): bitwise or of two equally long vectors, returns whether self changed
    #[verifier::external_body]
    pub fn or(&mut self, other: &Vob) -> (r: bool)
        requires old(self).nbits() == other.nbits(),
        ensures final(self).nbits() == old(self).nbits(), final(self).wf() == old(self).wf(),
            forall|i: int| 0 <= i < old(self).nbits() ==> #[trigger] final(self).at(i) == (old(self).at(i) || other.at(i)),
            r == exists|i: int| 0 <= i < old(self).nbits() && !old(self).at(i) && #[trigger] other.at(i),
    { unimplemented!() }
}
pub open spec fn inter(a: &Vob, b: &Vob) -> bool { exists|i: int| #[trigger] a.at(i) && b.at(i) }

// a non-zero word has a set bit
pub proof fn lemma_set_bit(x: u64) -> (k: u64)
    requires x != 0
    ensures k < 64, (x >> k) & 1u64 == 1u64
    decreases x
{
    if x & 1u64 == 1u64 {
        assert((x >> 0u64) & 1u64 == 1u64) by(bit_vector) requires x & 1u64 == 1u64;
        0
    } else {
        let y = x >> 1u64;
        assert(y != 0 && y < x) by(bit_vector) requires x != 0, x & 1u64 != 1u64, y == x >> 1u64;
        let k1 = lemma_set_bit(y);
        assert(k1 < 63) by(bit_vector) requires k1 < 64, ((x >> 1u64) >> k1) & 1u64 == 1u64;
        assert((x >> ((k1 + 1) as u64)) & 1u64 == 1u64) by(bit_vector) requires k1 < 63, ((x >> 1u64) >> k1) & 1u64 == 1u64;
        (k1 + 1) as u64
    }
}
pub proof fn lemma_and_bit(a: u64, b: u64, k: u64)
    requires k < 64
    ensures ((a & b) >> k) & 1u64 == 1u64 <==> ((a >> k) & 1u64 == 1u64 && (b >> k) & 1u64 == 1u64),
        ((a >> k) & 1u64 == 1u64 && (b >> k) & 1u64 == 1u64) ==> a & b != 0,
{
    assert(((a & b) >> k) & 1u64 == 1u64 <==> ((a >> k) & 1u64 == 1u64 && (b >> k) & 1u64 == 1u64)) by(bit_vector) requires k < 64;
    assert(((a >> k) & 1u64 == 1u64 && (b >> k) & 1u64 == 1u64) ==> a & b != 0) by(bit_vector) requires k < 64;
}

//@ctx vob_intersect: both vectors hold the same number of bits (one per token: every lookahead set of a grammar's item sets is created with tokens_len bits) and keep the vob crate's invariant that the unused bits of the last block are zero
//@ctx vob_intersect: storage blocks are 64-bit words (usize on the supported targets)
fn vob_intersect(v1: &Vob, v2: &Vob) -> (r: bool)
    requires v1.wf(), v2.wf(), v1.nbits() == v2.nbits(),
    ensures r == inter(v1, v2), // OBL: C02.merge.vob_intersect_is_set_intersection C04.merge.vob_intersect_is_set_intersection
{
    //@probe
    //@body file=lrtable/src/lib/pager.rs fn=vob_intersect
    //@rule n=1 `^(\s*)for \(b1, b2\) in v1\.iter_storage\(\)\.zip\(v2\.iter_storage\(\)\) \{$` =>>
    let nw_ = if v1.storage_len() < v2.storage_len() { v1.storage_len() } else { v2.storage_len() };   // zip stops with the shorter one
    for wi_ in 0..nw_
        invariant
            v1.wf(), v2.wf(), v1.nbits() == v2.nbits(), nw_ == v1.words().len(), nw_ == v2.words().len(),
            forall|w: int| 0 <= w < wi_ ==> (#[trigger] v1.words()[w]) & v2.words()[w] == 0, // OBL: C02.merge.blocks_seen_so_far_do_not_intersect
    {
        //@probe
        let (b1, b2) = (v1.storage_at(wi_), v2.storage_at(wi_));
        proof {
            if b1 & b2 != 0 {
                let k = lemma_set_bit(b1 & b2);
                lemma_and_bit(b1, b2, k);
                let i = wi_ as int * 64 + k as int;
                assert(i / 64 == wi_ as int && i % 64 == k as int);
                assert(bit(v1.words()[wi_ as int], k as int) && bit(v2.words()[wi_ as int], k as int));
                assert(i < v1.nbits());
                assert(v1.at(i) && v2.at(i));
            }
        }
    //@end
    //@rule n=1 `^(\s*)false$` =>>
    proof {
        assert forall|i: int| !(#[trigger] v1.at(i) && v2.at(i)) by {
            if v1.at(i) && v2.at(i) {
                let w = i / 64;
                let k = (i % 64) as u64;
                assert(0 <= w < nw_);
                lemma_and_bit(v1.words()[w], v2.words()[w], k);
            }
        }
    }
    false
    //@end
    //@endbody
}

// ---- weakly_merge ----
pub type Key = (PIdx<$T>, SIdx<$T>);
// Itemset.items (a HashMap from items to lookahead sets) as a list of entries with distinct keys, in the map's
// (unspecified) iteration order
pub struct Itemset { pub items: Vec<(Key, Vob)> }
impl Itemset {
    pub open spec fn distinct(&self) -> bool { forall|a: int, b: int| 0 <= a < b < self.items@.len() ==> (#[trigger] self.items@[a]).0 != (#[trigger] self.items@[b]).0 }
    pub open spec fn has(&self, k: Key) -> bool { exists|a: int| 0 <= a < self.items@.len() && (#[trigger] self.items@[a]).0 == k }
    pub open spec fn idx_of(&self, k: Key) -> int { choose|a: int| 0 <= a < self.items@.len() && (#[trigger] self.items@[a]).0 == k }
    // `other.items[&(pidx, dot)]` panics when the key is missing
    #[verifier::external_body]
    pub fn lookup(&self, k: &Key) -> (r: &Vob)
        requires self.has(*k), // OBLG: C02.merge.other_state_has_the_item
        ensures *r == self.items@[self.idx_of(*k)].1
    { unimplemented!() }
}
// dialect rule 5: `for (&(pidx, dot), ctx) in &mut self.items`: entry number ei_, its context mutably
#[verifier::external_body]
pub fn or_entry(items: &mut Vec<(Key, Vob)>, ei: usize, other: &Vob) -> (r: bool)
    requires ei < old(items)@.len(), old(items)@[ei as int].1.nbits() == other.nbits(),
    ensures final(items)@.len() == old(items)@.len(),
        forall|j: int| 0 <= j < old(items)@.len() && j != ei ==> #[trigger] final(items)@[j] == old(items)@[j],
        final(items)@[ei as int].0 == old(items)@[ei as int].0,
        final(items)@[ei as int].1.nbits() == other.nbits(),
        forall|i: int| 0 <= i < other.nbits() ==> #[trigger] final(items)@[ei as int].1.at(i) == (old(items)@[ei as int].1.at(i) || other.at(i)),
        r == exists|i: int| 0 <= i < other.nbits() && !old(items)@[ei as int].1.at(i) && #[trigger] other.at(i),
{ unimplemented!() }

pub open spec fn merged(s0: &Itemset, o: &Itemset, s1: &Itemset, n: int) -> bool {
    forall|a: int, i: int| 0 <= a < n ==> #[trigger] s1.items@[a].1.at(i) == (s0.items@[a].1.at(i) || o.items@[o.idx_of(s0.items@[a].0)].1.at(i))
}
pub open spec fn grew(s0: &Itemset, o: &Itemset, n: int) -> bool {
    exists|a: int, i: int| 0 <= a < n && !s0.items@[a].1.at(i) && #[trigger] o.items@[o.idx_of(s0.items@[a].0)].1.at(i)
}
//@ctx weakly_merge: the two states have the same core and lookahead sets of the same length (it is only called after weakly_compatible returned true for them)
impl Itemset {
    fn weakly_merge(&mut self, other: &Itemset) -> (r: bool)
        requires
            forall|a: int| 0 <= a < old(self).items@.len() ==> other.has((#[trigger] old(self).items@[a]).0),
            forall|a: int, b: int| 0 <= a < old(self).items@.len() && 0 <= b < other.items@.len() ==> (#[trigger] old(self).items@[a]).1.nbits() == (#[trigger] other.items@[b]).1.nbits(),
        ensures
            final(self).items@.len() == old(self).items@.len(),
            forall|a: int| 0 <= a < old(self).items@.len() ==> (#[trigger] final(self).items@[a]).0 == old(self).items@[a].0, // OBL: C02.merge.core_items_unchanged
            merged(old(self), other, final(self), old(self).items@.len() as int), // OBL: C02.merge.every_lookahead_set_becomes_the_union C04.merge.every_lookahead_set_becomes_the_union
            r == grew(old(self), other, old(self).items@.len() as int), // OBL: C02.merge.reports_a_change_iff_a_lookahead_was_added C04.merge.reports_a_change_iff_a_lookahead_was_added
    {
        //@probe
        let ghost s0 = *old(self);
        //@body file=lrtable/src/lib/pager.rs fn=weakly_merge
        //@rule n=1 `^(\s*)for \(&\(pidx, dot\), ctx\) in &mut self\.items \{$` =>>
        let n_ = self.items.len();
        for ei_ in 0..n_
            invariant
                n_ == s0.items@.len(), self.items@.len() == n_,
                forall|a: int| 0 <= a < n_ ==> other.has((#[trigger] s0.items@[a]).0),
                forall|a: int, b: int| 0 <= a < n_ && 0 <= b < other.items@.len() ==> (#[trigger] s0.items@[a]).1.nbits() == (#[trigger] other.items@[b]).1.nbits(),
                forall|a: int| 0 <= a < n_ ==> (#[trigger] self.items@[a]).0 == s0.items@[a].0 && self.items@[a].1.nbits() == s0.items@[a].1.nbits(),
                forall|a: int| ei_ <= a < n_ ==> #[trigger] self.items@[a] == s0.items@[a],
                merged(&s0, other, self, ei_ as int),
                changed == grew(&s0, other, ei_ as int),
        {
            //@probe
            let (pidx, dot) = self.items[ei_].0;
            proof {
                assert(other.has(s0.items@[ei_ as int].0));
                let b = other.idx_of((pidx, dot));
                assert(0 <= b < other.items@.len());
            }
        //@end
        //@rule n=1 `if ctx\.or\(&other\.items\[&\(pidx, dot\)\]\) \{` => `if or_entry(&mut self.items, ei_, other.lookup(&(pidx, dot))) {`
        //@endbody
    }
}
//@use prelude/tail.rs
