//@unit c08_entry props=C08,C07,C04 widths=u32
//@use prelude/head.rs

// lrpar/src/lib/parser.rs: the entry points of a parse -- Parser::parse_map / Parser::parse_actions (which build the parser
// and call `lr`) and the public RTParserBuilder wrappers around them.  Decides for C08 / C07 / C04: a parse starts at the
// first lexeme, on a stack holding only the table's start state, with empty value, span and error stacks (the
// precondition under which `lr` is verified in unit c07_lr); parse_map installs the mapping action for every
// production; what is returned is what `lr` returned together with the errors it recorded; when the lexer reports an
// error nothing is parsed and that error is the one returned.
#[verifier::external_body] pub struct LexemeT { _x: usize }
#[verifier::external_body] pub struct YaccGrammar { _x: usize }
impl YaccGrammar {
    pub uninterp spec fn ntok(&self) -> nat;
    pub uninterp spec fn nprods(&self) -> nat;
    #[verifier::external_body] pub fn tokens_len(&self) -> (r: TIdx<$T>) ensures r.0 == self.ntok() { unimplemented!() }
    #[verifier::external_body] pub fn prods_len(&self) -> (r: PIdx<$T>) ensures r.0 == self.nprods() { unimplemented!() }
}
#[verifier::external_body] pub struct StateTable { _x: usize }
impl StateTable {
    pub uninterp spec fn sstart(&self) -> StIdx<$T>;
    #[verifier::external_body] pub fn start_state(&self) -> (r: StIdx<$T>) ensures r == self.sstart() { unimplemented!() }
}
#[derive(Clone, Copy, PartialEq, Eq)] pub enum RecoveryKind { CPCTPlus, None }
// `TokenCostFn`: the user's cost function
#[verifier::external_body] pub struct TokenCostFn { _x: usize }
impl TokenCostFn {
    pub uninterp spec fn cost(&self, t: TIdx<$T>) -> u8;
    #[verifier::external_body] pub fn call(&self, t: TIdx<$T>) -> (r: u8) ensures r == self.cost(t) { unimplemented!() }
}
#[verifier::external_body] pub struct Lexer { _x: usize }       // &dyn NonStreamingLexer
#[verifier::external_body] pub struct LexErr { _x: usize }
#[verifier::external_body] pub struct ParseErr { _x: usize }
pub enum LexParseError { LexError(LexErr), ParseError(ParseErr) }
impl Lexer {
    pub uninterp spec fn lexed(&self) -> Result<Seq<LexemeT>, LexErr>;
    // `lexer.iter().collect::<Result<Vec<_>, _>>()`: every lexeme, or the first lexing error
    #[verifier::external_body] pub fn collect_lexemes(&self) -> (r: Result<Vec<LexemeT>, LexErr>)
        ensures r is Ok == self.lexed() is Ok, r matches Ok(v) ==> v@ == self.lexed()->Ok_0, r matches Err(e) ==> e == self.lexed()->Err_0
    { unimplemented!() }
}
// `vec![e.into()]`
#[verifier::external_body] pub fn one_lex_error(e: LexErr) -> (r: Vec<LexParseError>) ensures r@ == seq![LexParseError::LexError(e)] { unimplemented!() }
// an action: the built-in mapping action, or one of the user's
#[derive(Clone, Copy, PartialEq, Eq)] pub enum ActionFn { Map, User(usize) }
// `v.resize(n, x)`
#[verifier::external_body] pub fn resize_actions(v: &mut Vec<ActionFn>, n: usize, x: ActionFn)
    requires old(v)@.len() == 0,
    ensures final(v)@.len() == n, forall|i: int| 0 <= i < n ==> #[trigger] final(v)@[i] == x
{ unimplemented!() }
#[verifier::external_body] pub struct Value { _x: usize }       // ActionT / Node
#[verifier::external_body] pub struct AStackEntry { _x: usize }
#[verifier::external_body] pub struct Span { _x: usize }
#[verifier::external_body] pub struct Param { _x: usize }
#[verifier::external_body] pub struct FTerm { _x: usize }
#[verifier::external_body] pub struct FNonterm { _x: usize }
#[verifier::external_body] pub fn pair_param(a: &FTerm, b: &FNonterm) -> (r: Param) ensures r == param_of(a, b) { unimplemented!() }
pub uninterp spec fn param_of(a: &FTerm, b: &FNonterm) -> Param;

pub struct Parser<'a> { pub rcvry_kind: RecoveryKind, pub grm: &'a YaccGrammar, pub token_cost: &'a TokenCostFn, pub stable: &'a StateTable, pub lexer: &'a Lexer, pub lexemes: Vec<LexemeT>, pub actions: &'a Vec<ActionFn>, pub param: Param }
// what `lr` computes from a parser and the state it is started in
pub uninterp spec fn lr_value(p: &Parser, laidx: int, st: Seq<StIdx<$T>>) -> Option<Value>;
pub uninterp spec fn lr_errors(p: &Parser, laidx: int, st: Seq<StIdx<$T>>) -> Seq<LexParseError>;
impl<'a> Parser<'a> {
    // lr is under contract in unit c07_lr, under exactly this precondition
    #[verifier::external_body]
    pub fn lr(&self, laidx: usize, pstack: &mut Vec<StIdx<$T>>, astack: &mut Vec<AStackEntry>, errors: &mut Vec<LexParseError>, spans: &mut Vec<Span>) -> (r: Option<Value>)
        requires old(pstack)@.len() > 0, old(astack)@.len() == old(spans)@.len(), // OBLG: C07.entry.lr_is_entered_with_a_non_empty_parse_stack_and_aligned_value_and_span_stacks
            old(astack)@.len() == 0, old(errors)@.len() == 0,
        ensures r == lr_value(self, laidx as int, old(pstack)@), final(errors)@ == lr_errors(self, laidx as int, old(pstack)@)
    { unimplemented!() }
}
pub open spec fn all_map(a: Seq<ActionFn>, n: nat) -> bool { a.len() == n && forall|i: int| 0 <= i < a.len() ==> #[trigger] a[i] == ActionFn::Map }
// the parser a parse entry point has to build
pub open spec fn built(p: &Parser, rcvry_kind: RecoveryKind, grm: &YaccGrammar, token_cost: &TokenCostFn, stable: &StateTable, lexer: &Lexer, lexemes: Seq<LexemeT>, param: Param) -> bool {
    p.rcvry_kind == rcvry_kind && p.grm == grm && p.token_cost == token_cost && p.stable == stable && p.lexer == lexer && p.lexemes@ == lexemes && p.param == param
}

//@ctx parse_map / parse_actions: every token costs at least 1 (asserted on entry; a user cost function that returns 0 is refused with that assertion)
fn parse_map<'a>(rcvry_kind: RecoveryKind, grm: &'a YaccGrammar, token_cost: &'a TokenCostFn, stable: &'a StateTable, lexer: &'a Lexer, lexemes: Vec<LexemeT>, fterm: &'a FTerm, fnonterm: &'a FNonterm) -> (r: (Option<Value>, Vec<LexParseError>))
    requires forall|t: TIdx<$T>| (t.0 as nat) < grm.ntok() ==> #[trigger] token_cost.cost(t) > 0, grm.ntok() <= $TMAX,
    ensures exists|p: Parser| #[trigger] built(&p, rcvry_kind, grm, token_cost, stable, lexer, lexemes@, param_of(fterm, fnonterm)) && all_map(p.actions@, grm.nprods()) && r.0 == lr_value(&p, 0, seq![stable.sstart()]) && r.1@ == lr_errors(&p, 0, seq![stable.sstart()]), // OBL: C08.entry.parse_map_maps_every_production_and_returns_what_lr_returns_from_the_start_state_at_the_first_lexeme C04.entry.a_parse_starts_at_the_first_lexeme_in_the_start_state C07.entry.a_parse_starts_at_the_first_lexeme_in_the_start_state
{
    //@probe
    //@body file=lrpar/src/lib/parser.rs fn=parse_map nth=1
    //@rule n=1 `^(\s*)for tidx in grm\.iter_tidxs\(\) \{$` =>>
    // dialect rule 5: grm.iter_tidxs() is (0..tokens_len).map(|x| TIdx(x.as_()))
    for ti_ in 0..usize::from(grm.tokens_len())
        invariant forall|t: TIdx<$T>| (t.0 as nat) < grm.ntok() ==> #[trigger] token_cost.cost(t) > 0, grm.ntok() <= $TMAX,
    {
        //@probe
        let tidx = TIdx(ti_ as $T);
    //@end
    //@rule n=1 `token_cost\(tidx\)` => `token_cost.call(tidx)`
    //@rule n=1 `let mut actions: Vec<\s*ActionFn<[^;]*?>,\s*> = Vec::new\(\);` => `let mut actions: Vec<ActionFn> = Vec::new();`
    //@rule n=1 `actions\.resize\(([^;]*), &action_map\);` => `resize_actions(&mut actions, \1, ActionFn::Map);`
    //@rule n=1 `actions: actions\.as_slice\(\),` => `actions: &actions,`
    //@rule n=1 `param: \(fterm, fnonterm\),` => `param: pair_param(fterm, fnonterm),`
    //@rule n=1 `let mut pstack = vec!\[stable\.start_state\(\)\];` => `let mut pstack: Vec<StIdx<$T>> = Vec::new(); pstack.push(stable.start_state());`
    //@rule n=1 `let mut astack = Vec::new\(\);` => `let mut astack: Vec<AStackEntry> = Vec::new();`
    //@rule n=1 `let mut errors = Vec::new\(\);` => `let mut errors: Vec<LexParseError> = Vec::new();`
    //@rule n=1 `let mut spans = Vec::new\(\);` => `let mut spans: Vec<Span> = Vec::new();`
    //@rule n=1 `^(\s*)\(accpt, errors\)$` => `\1proof { assert(built(&psr, rcvry_kind, grm, token_cost, stable, lexer, psr.lexemes@, param_of(fterm, fnonterm))); }\n\1(accpt, errors)`
    //@endbody
}

fn parse_actions<'a>(rcvry_kind: RecoveryKind, grm: &'a YaccGrammar, token_cost: &'a TokenCostFn, stable: &'a StateTable, lexer: &'a Lexer, lexemes: Vec<LexemeT>, actions: &'a Vec<ActionFn>, param: Param) -> (r: (Option<Value>, Vec<LexParseError>))
    requires forall|t: TIdx<$T>| (t.0 as nat) < grm.ntok() ==> #[trigger] token_cost.cost(t) > 0, grm.ntok() <= $TMAX,
    ensures exists|p: Parser| #[trigger] built(&p, rcvry_kind, grm, token_cost, stable, lexer, lexemes@, param) && p.actions == actions && r.0 == lr_value(&p, 0, seq![stable.sstart()]) && r.1@ == lr_errors(&p, 0, seq![stable.sstart()]), // OBL: C08.entry.parse_actions_runs_the_given_actions_and_returns_what_lr_returns_from_the_start_state_at_the_first_lexeme C04.entry.a_parse_starts_at_the_first_lexeme_in_the_start_state C07.entry.a_parse_starts_at_the_first_lexeme_in_the_start_state
{
    //@probe
    //@body file=lrpar/src/lib/parser.rs fn=parse_actions nth=1
    //@rule n=1 `^(\s*)for tidx in grm\.iter_tidxs\(\) \{$` =>>
    for ti_ in 0..usize::from(grm.tokens_len())
        invariant forall|t: TIdx<$T>| (t.0 as nat) < grm.ntok() ==> #[trigger] token_cost.cost(t) > 0, grm.ntok() <= $TMAX,
    {
        //@probe
        let tidx = TIdx(ti_ as $T);
    //@end
    //@rule n=1 `token_cost\(tidx\)` => `token_cost.call(tidx)`
    //@rule n=1 `let mut pstack = vec!\[stable\.start_state\(\)\];` => `let mut pstack: Vec<StIdx<$T>> = Vec::new(); pstack.push(stable.start_state());`
    //@rule n=1 `let mut astack = Vec::new\(\);` => `let mut astack: Vec<AStackEntry> = Vec::new();`
    //@rule n=1 `let mut errors = Vec::new\(\);` => `let mut errors: Vec<LexParseError> = Vec::new();`
    //@rule n=1 `let mut spans = Vec::new\(\);` => `let mut spans: Vec<Span> = Vec::new();`
    //@rule n=1 `^(\s*)\(accpt, errors\)$` => `\1proof { assert(built(&psr, rcvry_kind, grm, token_cost, stable, lexer, psr.lexemes@, psr.param)); }\n\1(accpt, errors)`
    //@endbody
}

// ---- RTParserBuilder: the public wrappers (lex everything first; a lexing error ends the parse before it starts) ----
pub struct RTParserBuilder<'a> { pub recoverer: RecoveryKind, pub grm: &'a YaccGrammar, pub term_costs: &'a TokenCostFn, pub stable: &'a StateTable }
impl<'a> RTParserBuilder<'a> {
    //@ctx RTParserBuilder::parse_map / parse_actions: every token costs at least 1 (see parse_map above)
    fn parse_map(&self, lexer: &'a Lexer, fterm: &'a FTerm, fnonterm: &'a FNonterm) -> (r: (Option<Value>, Vec<LexParseError>))
        requires forall|t: TIdx<$T>| (t.0 as nat) < self.grm.ntok() ==> #[trigger] self.term_costs.cost(t) > 0, self.grm.ntok() <= $TMAX,
        ensures
            lexer.lexed() matches Err(e) ==> r.0 is None && r.1@ == seq![LexParseError::LexError(e)], // OBL: C08.entry.a_lexing_error_is_returned_alone_and_nothing_is_parsed C04.entry.a_lexing_error_is_returned_alone_and_nothing_is_parsed
            lexer.lexed() matches Ok(ls) ==> exists|p: Parser| #[trigger] built(&p, self.recoverer, self.grm, self.term_costs, self.stable, lexer, ls, param_of(fterm, fnonterm)) && all_map(p.actions@, self.grm.nprods()) && r.0 == lr_value(&p, 0, seq![self.stable.sstart()]) && r.1@ == lr_errors(&p, 0, seq![self.stable.sstart()]), // OBL: C08.entry.the_builders_settings_and_every_lexeme_reach_the_parser
    {
        //@probe
        //@body file=lrpar/src/lib/parser.rs fn=parse_map nth=2
        //@rule n=1 `lexer\.iter\(\)\.collect\(\)` => `lexer.collect_lexemes()`
        //@rule n=1 `vec!\[e\.into\(\)\]` => `one_lex_error(e)`
        //@rule n=1 `Parser::<[\s\S]*?>::parse_map\(` => `parse_map(`
        //@endbody
    }
    fn parse_actions(&self, lexer: &'a Lexer, actions: &'a Vec<ActionFn>, param: Param) -> (r: (Option<Value>, Vec<LexParseError>))
        requires forall|t: TIdx<$T>| (t.0 as nat) < self.grm.ntok() ==> #[trigger] self.term_costs.cost(t) > 0, self.grm.ntok() <= $TMAX,
        ensures
            lexer.lexed() matches Err(e) ==> r.0 is None && r.1@ == seq![LexParseError::LexError(e)], // OBL: C08.entry.a_lexing_error_is_returned_alone_and_nothing_is_parsed C04.entry.a_lexing_error_is_returned_alone_and_nothing_is_parsed
            lexer.lexed() matches Ok(ls) ==> exists|p: Parser| #[trigger] built(&p, self.recoverer, self.grm, self.term_costs, self.stable, lexer, ls, param) && p.actions == actions && r.0 == lr_value(&p, 0, seq![self.stable.sstart()]) && r.1@ == lr_errors(&p, 0, seq![self.stable.sstart()]), // OBL: C08.entry.the_builders_settings_and_every_lexeme_reach_the_parser
    {
        //@probe
        //@body file=lrpar/src/lib/parser.rs fn=parse_actions nth=2
        //@rule n=1 `lexer\.iter\(\)\.collect\(\)` => `lexer.collect_lexemes()`
        //@rule n=1 `vec!\[e\.into\(\)\]` => `one_lex_error(e)`
        //@rule n=1 `Parser::parse_actions\(` => `parse_actions(`
        //@endbody
    }
}
//@use prelude/tail.rs
