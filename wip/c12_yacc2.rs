//@unit c12_yacc2 props=C12 widths=u32
//@use prelude/head.rs
//@use prelude/cursor.rs

// The rules and programs sections of the yacc grammar parser (cfgrammar/src/lib/yacc/parser.rs):
// parse_action, parse_programs, parse_rule, parse_rules.  The scanners they call have the contracts
// proved in unit c12_yacc (restated here); the AST being built is an opaque value (what it contains is
// C10's business, here only: no call on it can fail).
pub enum YaccGrammarErrorKind { ReachedEOL, IncompleteComment, IllegalInteger, InvalidString, IllegalName, IllegalString,
    MissingRightArrow, MissingColon, ProductionNotTerminated, NonEmptyProduction, IncompleteRule, IncompleteAction, Other }
pub struct YaccGrammarError { pub kind: YaccGrammarErrorKind, pub spans: Vec<Span> }
pub open spec fn err_ok(src: &Src, e: YaccGrammarError) -> bool { e.spans@.len() > 0 && spans_ok(src, e.spans@) }

pub enum YaccOriginalActionKind { UserAction, GenericParseTree, NoAction }
pub enum YaccKind { Original(YaccOriginalActionKind), Grmtools, Eco }
pub enum ASym { Rule(StrBuf, Span), Token(StrBuf, Span) }   // ast::Symbol
#[verifier::external_body] pub struct RuleM { _x: usize }
#[verifier::external_body] pub struct TokSet { _x: usize }        // IndexSet<String>
impl TokSet {
    #[verifier::external_body] pub fn insert(&mut self, s: StrBuf) -> (r: bool) { unimplemented!() }
    #[verifier::external_body] pub fn get_index_of(&self, s: &StrBuf) -> (r: Option<usize>) { unimplemented!() }
}
#[verifier::external_body] pub struct IdxSet { _x: usize }        // HashSet<usize>
impl IdxSet { #[verifier::external_body] pub fn contains(&self, i: &usize) -> (r: bool) { unimplemented!() } }
pub struct GrammarAST { pub start: Option<(StrBuf, Span)>, pub tokens: TokSet, pub spans: Vec<Span>, pub token_directives: IdxSet }
impl GrammarAST {
    #[verifier::external_body] pub fn get_rule(&self, key: &StrBuf) -> (r: Option<&RuleM>) { unimplemented!() }
    #[verifier::external_body] pub fn add_rule(&mut self, name: (StrBuf, Span), actiont: Option<StrBuf>)
        ensures final(self).start == old(self).start { unimplemented!() }
    #[verifier::external_body] pub fn add_prod(&mut self, rule_name: StrBuf, symbols: Vec<ASym>, precedence: Option<StrBuf>, action: Option<(StrBuf, Span)>, prod_span: Span)
        ensures final(self).start == old(self).start { unimplemented!() }
    #[verifier::external_body] pub fn set_programs(&mut self, s: StrBuf) { unimplemented!() }
}
// `self.global_actiontype.clone().map(|(s, _)| s)`
#[verifier::external_body] pub fn first_of(o: Option<(StrBuf, Span)>) -> (r: Option<StrBuf>) { unimplemented!() }
#[verifier::external_body] pub fn clone_opt(o: &Option<(StrBuf, Span)>) -> (r: Option<(StrBuf, Span)>) { unimplemented!() }
// `.is_some_and(|idx| quoted || self.ast.token_directives.contains(&idx))`
pub fn declared_token(o: Option<usize>, quoted: bool, dirs: &IdxSet) -> (r: bool) { match o { Some(idx) => quoted || dirs.contains(&idx), None => false } }

// a one-character literal is a prefix of the text at j iff the character at j is that character (trusted)
#[verifier::external_body]
pub proof fn axiom_brace_lits(src: &Src, j: int)
    requires 0 <= j <= src.slen()
    ensures src.spec_starts_with(j, spec_lit("{"@, 1)) == (j < src.slen() && src.ch(j) == '{'),
            src.spec_starts_with(j, spec_lit("}"@, 1)) == (j < src.slen() && src.ch(j) == '}'),
{ }

pub struct YaccParser { pub yacc_kind: YaccKind, pub src: Src, pub num_newlines: usize, pub ast: GrammarAST, pub global_actiontype: Option<(StrBuf, Span)> }

impl YaccParser {
    // ---- contracts proved in unit c12_yacc ----
    #[verifier::external_body]
    fn mk_error(&self, k: YaccGrammarErrorKind, off: usize) -> (r: YaccGrammarError)
        requires self.src.ok(off as int), // OBLG: C12.yacc.error_offset_in_range_on_boundary
        ensures err_ok(&self.src, r),
    { unimplemented!() }
    #[verifier::external_body]
    fn lookahead_is(&self, s: Lit, i: usize) -> (r: Option<usize>)
        requires self.src.ok(i as int),
        ensures r matches Some(j) ==> j == i + s.slen() && self.src.ok(j as int), (r is Some) == self.src.spec_starts_with(i as int, s),
    { unimplemented!() }
    #[verifier::external_body]
    fn parse_ws(&mut self, i0: usize, inc_newlines: bool) -> (r: Result<usize, YaccGrammarError>)
        requires old(self).src.ok(i0 as int), old(self).num_newlines <= i0,
        ensures final(self).src == old(self).src, final(self).ast == old(self).ast, final(self).yacc_kind == old(self).yacc_kind, final(self).global_actiontype == old(self).global_actiontype,
            r matches Ok(j) ==> i0 <= j && old(self).src.ok(j as int) && final(self).num_newlines <= j,
            r matches Err(e) ==> err_ok(&old(self).src, e),
    { unimplemented!() }
    #[verifier::external_body]
    fn parse_to_single_colon(&mut self, i: usize) -> (r: Result<(usize, StrBuf), YaccGrammarError>)
        requires old(self).src.ok(i as int), old(self).num_newlines <= i,
        ensures final(self).src == old(self).src, final(self).ast == old(self).ast, final(self).yacc_kind == old(self).yacc_kind, final(self).global_actiontype == old(self).global_actiontype,
            r matches Ok(t) ==> i <= t.0 && old(self).src.ok(t.0 as int) && final(self).num_newlines <= t.0,
            r matches Err(e) ==> err_ok(&old(self).src, e),
    { unimplemented!() }
    #[verifier::external_body]
    fn parse_name(&self, i: usize) -> (r: Result<(usize, StrBuf), YaccGrammarError>)
        requires self.src.ok(i as int),
        ensures r matches Ok(t) ==> i < t.0 && self.src.ok(t.0 as int), r matches Err(e) ==> err_ok(&self.src, e),
    { unimplemented!() }
    #[verifier::external_body]
    fn parse_token(&self, i: usize) -> (r: Result<(usize, StrBuf, Span, bool), YaccGrammarError>)
        requires self.src.ok(i as int),
        ensures r matches Ok(t) ==> i < t.0 && self.src.ok(t.0 as int) && span_ok(&self.src, t.2), r matches Err(e) ==> err_ok(&self.src, e),
    { unimplemented!() }

    // ---- this unit ----
    //@ctx parse_action: called with the cursor on a `{` (parse_rule checks lookahead_is("{", i) first)
    //@ctx parse_action: the grammar text is shorter than 2^31 bytes (the brace counter is an i32)
    fn parse_action(&mut self, i: usize) -> (r: Result<(usize, StrBuf), YaccGrammarError>)
        requires old(self).src.ok(i as int), old(self).num_newlines <= i, i < old(self).src.slen(), old(self).src.ch(i as int) == '{', old(self).src.slen() < 0x7fff_ffff,
        ensures final(self).src == old(self).src, final(self).ast == old(self).ast, final(self).yacc_kind == old(self).yacc_kind, final(self).global_actiontype == old(self).global_actiontype,
            r matches Ok(t) ==> i + 1 < t.0 && old(self).src.ok(t.0 as int) && final(self).num_newlines <= t.0 && i + 1 + t.1.blen() < t.0, // OBL: C12.yacc.parse_action.ok_ends_after_the_closing_brace_on_a_boundary
            r matches Err(e) ==> err_ok(&old(self).src, e), // OBL: C12.yacc.parse_action.error_spans_renderable
    {
        //@probe
        proof { axiom_brace_lits(&self.src, i as int); }
        //@body file=cfgrammar/src/lib/yacc/parser.rs fn=parse_action
        //@rule n=* `self\.src\[(\w+)\.\.\]\.chars\(\)\.next\(\)` => `self.src.first_char_from(\1)`
        //@rule n=* `'\{'\.len_utf8\(\)` => `len_utf8('{')`
        //@rule n=* `'\}'\.len_utf8\(\)` => `len_utf8('}')`
        //@rule n=* `\b(\w+)\.len_utf8\(\)` => `len_utf8(\1)`
        //@use prelude/cursor_rules.rs
        //@rule n=1 `let mut c = 0;` => `let mut c: i32 = 0;`
        //@rule n=1 `self\.src\.slice\(i \+ len_utf8\('\{'\), j\)\.trim\(\)\.to_string\(\)` => `self.src.slice(i + len_utf8('{'), j).trim().to_string()`
        //@rule n=1 `^(\s*)while j < self\.src\.len\(\) \{$` =>>
        while j < self.src.len()
            invariant_except_break
                self.src == old(self).src, self.ast == old(self).ast, self.yacc_kind == old(self).yacc_kind, self.global_actiontype == old(self).global_actiontype,
                self.src.ok(j as int), self.src.ok(i as int), i <= j, self.num_newlines <= j, i < self.src.slen(), self.src.ch(i as int) == '{',
                0 <= c <= j - i, j > i ==> c >= 1, self.src.slen() < 0x7fff_ffff,
            ensures
                self.src == old(self).src, self.ast == old(self).ast, self.yacc_kind == old(self).yacc_kind, self.global_actiontype == old(self).global_actiontype,
                self.src.ok(j as int), self.src.ok(i as int), i <= j, self.num_newlines <= j, 0 <= c,
                c == 0 ==> i < j && j < self.src.slen() && self.src.ch(j as int) == '}', // OBL: C12.yacc.parse_action.stops_on_the_matching_closing_brace
            decreases self.src.slen() - j, // OBL: C12.yacc.parse_action.loop_terminates
        {
            //@probe
            proof { axiom_brace_lits(&self.src, j as int); }
        //@end
        //@rule n=1 `^(\s*)if c > 0 \{$` => `\1proof { axiom_brace_lits(&self.src, j as int); }\n\1if c > 0 {`
        //@endbody
    }

    fn parse_programs(&mut self, i0: usize, errs_: &mut Vec<YaccGrammarError>) -> (r: Result<usize, YaccGrammarError>)
        requires old(self).src.ok(i0 as int), old(self).num_newlines <= i0,
        ensures final(self).src == old(self).src,
            r matches Ok(j) ==> i0 <= j && j <= old(self).src.slen(), // OBL: C12.yacc.parse_programs.cursor_monotone_in_range
            r matches Err(e) ==> err_ok(&old(self).src, e), // OBL: C12.yacc.parse_programs.error_spans_renderable
    {
        //@probe
        let mut i = i0;
        //@body file=cfgrammar/src/lib/yacc/parser.rs fn=parse_programs
        //@use prelude/cursor_rules.rs
        //@rule n=1 `let prog = self\.src\[i\.\.\]\.to_string\(\);` => `let prog = self.src.slice(i, self.src.len()).to_string();`
        //@endbody
    }

    //@ctx parse_rules: parse_declarations left the cursor on `%%` (its postcondition when it returns Ok; parse() only calls parse_rules then)
    fn parse_rules(&mut self, i0: usize) -> (r: Result<usize, YaccGrammarError>)
        requires old(self).src.ok(i0 as int), old(self).num_newlines <= i0, old(self).src.spec_starts_with(i0 as int, spec_lit("%%"@, 2)), old(self).src.slen() < 0x7fff_ffff,
        ensures final(self).src == old(self).src,
            r matches Ok(j) ==> i0 <= j && old(self).src.ok(j as int) && final(self).num_newlines <= j, // OBL: C12.yacc.parse_rules.cursor_monotone_in_range_on_boundary
            r matches Err(e) ==> err_ok(&old(self).src, e), // OBL: C12.yacc.parse_rules.error_spans_renderable
    {
        //@probe
        let mut i = i0;
        //@body file=cfgrammar/src/lib/yacc/parser.rs fn=parse_rules
        //@use prelude/cursor_rules.rs
        //@rule n=1 `^(\s*)while i < self\.src\.len\(\) && self\.lookahead_is\(lit\("%%", 2\), i\)\.is_none\(\) \{$` =>>
        while i < self.src.len() && self.lookahead_is(lit("%%", 2), i).is_none()
            invariant self.src == old(self).src, self.src.ok(i as int), i0 <= i, self.num_newlines <= i, self.src.slen() < 0x7fff_ffff,
            decreases self.src.slen() - i, // OBL: C12.yacc.parse_rules.loop_terminates
        {
            //@probe
        //@end
        //@endbody
    }

    //@ctx parse_rule / parse_rules: the grammar text is shorter than 2^31 bytes (parse_action's brace counter)
    fn parse_rule(&mut self, i0: usize) -> (r: Result<usize, YaccGrammarError>)
        requires old(self).src.ok(i0 as int), old(self).num_newlines <= i0, old(self).src.slen() < 0x7fff_ffff,
        ensures final(self).src == old(self).src,
            r matches Ok(j) ==> i0 < j && old(self).src.ok(j as int) && final(self).num_newlines <= j, // OBL: C12.yacc.parse_rule.ok_advances_on_boundary
            r matches Err(e) ==> err_ok(&old(self).src, e), // OBL: C12.yacc.parse_rule.error_spans_renderable
    {
        //@probe
        let mut i = i0;
        //@body file=cfgrammar/src/lib/yacc/parser.rs fn=parse_rule
        //@use prelude/cursor_rules.rs
        //@rule n=1 `^(\s*)let \(j, a\) = self\.parse_action\(i\)\?;$` => `\1proof { axiom_brace_lits(&self.src, i as int); }\n\1let (j, a) = self.parse_action(i)?;`
        //@rule n=* `\bSymbol::(Token|Rule)\(` => `ASym::\1(`
        //@rule n=1 `let mut pos_prod_end = None;` => `let mut pos_prod_end: Option<usize> = None;`
        //@rule n=1 `self\.global_actiontype\.clone\(\)\.map\(\|\(s, _\)\| s\)` => `first_of(clone_opt(&self.global_actiontype))`
        //@rule n=1 `if self\s*\.ast\s*\.tokens\s*\.get_index_of\(&sym\)\s*\.is_some_and\(\|idx\| quoted \|\| self\.ast\.token_directives\.contains\(&idx\)\)\s*\{` => `if declared_token(self.ast.tokens.get_index_of(&sym), quoted, &self.ast.token_directives) {`
        //@rule n=1 `if !syms\.is_empty\(\)\s*\| !\(` => `if !syms.is_empty() || !(`
        //@rule n=1 `^(\s*)while i < self\.src\.len\(\) \{$` =>>
        while i < self.src.len()
            invariant self.src == old(self).src, self.src.ok(i as int), i0 < i, self.num_newlines <= i, self.src.slen() < 0x7fff_ffff,
                self.src.ok(pos_prod_start as int), pos_prod_start <= i,
                pos_prod_end matches Some(e_) ==> pos_prod_start <= e_ && e_ <= i && self.src.ok(e_ as int),
            decreases self.src.slen() - i, // OBL: C12.yacc.parse_rule.loop_terminates
        {
            //@probe
        //@end
        //@endbody
    }
}
//@use prelude/tail.rs
